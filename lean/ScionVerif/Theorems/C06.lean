import ScionVerif.Lemmas.PathMgr
/-!
# C06 — handed-out paths are live and the manager's state stays bounded

Model: `Model/PathSet.lean`, `Model/IssueMgr.lean`, `Model/Backoff.lean` – they mirror the code *after*
the fixes made for this property (expired active path treated as absent in `cached_path`/`path`,
already-expired fetched paths ignored, `max_cached_paths_per_pair = 0` rejected by the validator,
`pop_front` skipping stale FIFO entries).  All statements hold for every start time, every policy,
every finite history, every clock value, every score assignment, every hash order and – where a
configuration matters – every configuration accepted by the extracted validator.
-/
namespace ScionVerif.PathMgr
open ScionVerif.Generated.PathMgr

theorem validate_facts {cfg : Cfg} (h : validate cfg = true) :
    1 ≤ cfg.maxCached ∧ cfg.minRefetchDelay ≤ cfg.refetchInterval ∧
    cfg.minRefetchDelay ≤ cfg.minExpiryThreshold := by
  unfold validate at h
  simp only [Bool.and_eq_true, decide_eq_true_eq] at h
  omega

/-- **handout_not_expired.** At the instant a path is handed to a sender (by `cached_path` or by
    `path`) it is not expired: `now` (in whole seconds, as the code compares) is before its expiry.
    Holds in every state, reachable or not. -/
theorem handout_not_expired (s : St) (now : Nat) (p : Path)
    (h : sendCached s now = some p ∨ sendPath s now = .ok p) :
    p.expiredAt now = false ∧ ∀ e, p.expiry = some e → now / NS < e := by
  have hx : p.expiredAt now = false := by
    rcases h with h | h
    · unfold sendCached at h
      split at h
      · cases h
      · split at h
        · cases h
        · next hne => cases h; simpa using hne
    · unfold sendPath at h
      split at h
      · split at h
        · unfold St.lastErr at h; split at h <;> cases h
        · next hne => cases h; simpa using hne
      · split at h
        · cases h
        · unfold St.lastErr at h; split at h <;> cases h
  refine ⟨hx, ?_⟩
  intro e he
  unfold Path.expiredAt at hx
  rw [he] at hx
  simp only [decide_eq_false_iff_not, Nat.not_le] at hx
  exact hx

/-- **no_panic.** With a configuration the validator accepts, no history reaches a panic site of the
    worker (`earliest_expiry().expect(..)`, the two `debug_assert!(false, ..)` about the active path),
    and the active path is always one of the cached entries, whose fingerprints are distinct. -/
theorem no_panic (env : Env) (hv : validate env.cfg = true) (t0 : Nat) (ops : List Op) :
    (run env t0 ops).bad = false ∧ WF (run env t0 ops) :=
  ⟨(run_wf env t0 ops (validate_facts hv).1).2, (run_wf env t0 ops (validate_facts hv).1).1⟩

/-- **cache_bounded.** The number of cached paths never exceeds the configured maximum. -/
theorem cache_bounded (env : Env) (hv : validate env.cfg = true) (t0 : Nat) (ops : List Op) :
    (run env t0 ops).cached.length ≤ env.cfg.maxCached := by
  have := run_length env t0 ops
  have := (validate_facts hv).1
  omega

/-- **issue_cache_bounded.** The issue cache never holds more than `issue_cache_size` issues (one for
    the degenerate size 0, which only the hooks can configure); every cached issue has a live FIFO
    entry and issue ids are distinct. -/
theorem issue_cache_bounded (env : Env) (t0 : Nat) (ops : List Op) :
    (run env t0 ops).im.cache.length ≤ max env.cfg.issueCacheSize 1 ∧ IMInv (run env t0 ops).im :=
  ⟨(run_im_inv env t0 ops).2, (run_im_inv env t0 ops).1⟩

/- **issue_fifo_bounded** (full statement, FALSE on the current code – known finding
   `C06:issue-fifo-bound`):
     ∀ env t0 ops, (run env t0 ops).im.fifo.length ≤ max env.cfg.issueCacheSize 1
   An issue that is reported again after the deduplication window keeps its older FIFO entries (an
   existing unit test pins that); they are only dropped when the cache is full and evicts. -/

def reports : List Op → Nat
  | [] => 0
  | .report _ _ _ :: ops => reports ops + 1
  | _ :: ops => reports ops

theorem step_fifo_le (env : Env) (s : St) (op : Op) (hm : IMInv s.im)
    (hb : s.im.cache.length ≤ max env.cfg.issueCacheSize 1) :
    (step env s op).im.fifo.length ≤ s.im.fifo.length + reports [op] := by
  unfold step
  split
  · exact Nat.le_add_right _ _
  · cases op with
    | maintain now resp sc0 sc1 ord b => simp only [maintain_im]; exact Nat.le_add_right _ _
    | deliver now sc => simp only [deliver_im]; exact Nat.le_add_right _ _
    | send now => exact Nat.le_add_right _ _
    | report k id ts =>
      simp only [reports]
      unfold report
      split
      · exact Nat.le_succ _
      · next t _ => exact addIssue_fifo_le s.im _ _ id ⟨t, ts⟩ hm hb

/-- **issue_fifo_bounded_partial.** The FIFO holds at most one entry per issue report of the history
    (it does not grow by itself, and a duplicate inside the window adds nothing). -/
theorem issue_fifo_bounded_partial (env : Env) (t0 : Nat) (ops : List Op) :
    (run env t0 ops).im.fifo.length ≤ reports ops := by
  unfold run
  have : ∀ (ops : List Op) (s : St), IMInv s.im → s.im.cache.length ≤ max env.cfg.issueCacheSize 1 →
      (ops.foldl (step env) s).im.fifo.length ≤ s.im.fifo.length + reports ops := by
    intro ops
    induction ops with
    | nil => intro s _ _; exact Nat.le_refl _
    | cons op ops ih =>
      intro s h1 h2
      have hs := step_im_inv env s op h1 h2
      have h3 := ih (step env s op) hs.1 hs.2
      have h4 := step_fifo_le env s op h1 h2
      have h5 : reports (op :: ops) = reports ops + reports [op] := by
        cases op <;> simp [reports]
      simp only [List.foldl_cons]
      omega
  have h := this ops (init env t0) ⟨by simp [init], by intro e he; simp [init] at he⟩ (by simp [init])
  simpa [init] using h

private def cfg2 : Cfg := { defaultCfg with issueCacheSize := 2 }
private def envW : Env := { cfg := cfg2, src := 1, dst := 2, allowed := fun _ => true }
/-- one interface-down issue (dedup id 7) seen at 0 s, 20 s, 40 s, 60 s (dedup window 10 s) -/
private def opsW : List Op :=
  [.report (.extIfDown 5 1) 7 0, .report (.extIfDown 5 1) 7 20000000000,
   .report (.extIfDown 5 1) 7 40000000000, .report (.extIfDown 5 1) 7 60000000000]

/-- **issue_fifo_bounded_witness.** The unrestricted bound is false: one issue that persists and is
    reported again every 20 s grows the FIFO beyond the configured issue memory (here 4 entries for a
    configured size of 2) while the cache holds a single issue. -/
theorem issue_fifo_bounded_witness :
    ¬ (∀ (env : Env) (t0 : Nat) (ops : List Op),
        (run env t0 ops).im.fifo.length ≤ max env.cfg.issueCacheSize 1) := by
  intro h
  have := h envW 0 opsW
  revert this
  decide

/-- **refetch_window.** After every fetch executed at `now` in a reachable state (successful or
    failed, with any backoff duration up to the configured ceiling) the next lookup is scheduled no
    sooner than `min_refetch_delay` and no later than `max(refetch_interval, backoff ceiling)` after
    `now`. -/
theorem refetch_window (env : Env) (hv : validate env.cfg = true) (t0 : Nat) (ops : List Op)
    (now : Nat) (resp : Resp) (sc0 sc1 : Nat → Int) (ord : List Nat) (b : Nat)
    (hb : b ≤ env.cfg.backoffMax) :
    now + env.cfg.minRefetchDelay ≤
      (fetchAndUpdate env (run env t0 ops) now resp sc0 sc1 ord b).nextRefetch ∧
    (fetchAndUpdate env (run env t0 ops) now resp sc0 sc1 ord b).nextRefetch ≤
      now + max env.cfg.refetchInterval env.cfg.backoffMax := by
  have hf := validate_facts hv
  have hw := run_wf env t0 ops hf.1
  have hbad := (fetchAndUpdate_wf env (run env t0 ops) now resp sc0 sc1 ord b hf.1 hw.1).2
  rcases fetchAndUpdate_window env (run env t0 ops) now resp sc0 sc1 ord b with h | h
  · rw [hbad, hw.2] at h; cases h
  · refine ⟨h.1, ?_⟩
    have := h.2
    omega

/-- **refetch_window_failed.** The tight form of the property's "no later than the configured backoff
    ceiling": after a fetch that *fails* at `now` (fetcher error, or no policy-conforming unexpired path)
    in a reachable state, the next lookup is scheduled exactly `max(backoff, min_refetch_delay)` later,
    hence – for any backoff duration `b` up to the ceiling – no later than
    `max(backoff ceiling, min_refetch_delay)` after `now`; `refetch_interval` plays no role.
    (`b ≤ backoffMax` is a hypothesis about the f32 `ExponentialBackoff::duration`, checked on the real
    code by the oracle `C06:backoff-range`.) -/
theorem refetch_window_failed (env : Env) (t0 : Nat) (ops : List Op)
    (now : Nat) (resp : Resp) (sc0 sc1 : Nat → Int) (ord : List Nat) (b : Nat) (e : FetchErr)
    (hfail : fetchFiltered env now resp = .error e) (hb : b ≤ env.cfg.backoffMax) :
    (fetchAndUpdate env (run env t0 ops) now resp sc0 sc1 ord b).nextRefetch =
      now + max b env.cfg.minRefetchDelay ∧
    (fetchAndUpdate env (run env t0 ops) now resp sc0 sc1 ord b).nextRefetch ≤
      now + max env.cfg.backoffMax env.cfg.minRefetchDelay := by
  have h : (fetchAndUpdate env (run env t0 ops) now resp sc0 sc1 ord b).nextRefetch =
      now + max b env.cfg.minRefetchDelay := by
    unfold fetchAndUpdate
    simp only [hfail, markInit, reevaluate_nextRefetch, afterErr, failDelay]
  refine ⟨h, ?_⟩
  rw [h]
  omega

/-- **refetch_window_ok.** After a fetch that *succeeds* at `now` in a reachable state of a validated
    configuration the next lookup is scheduled within `[now + min_refetch_delay, now + refetch_interval]`
    (the backoff ceiling plays no role). -/
theorem refetch_window_ok (env : Env) (hv : validate env.cfg = true) (t0 : Nat) (ops : List Op)
    (now : Nat) (resp : Resp) (sc0 sc1 : Nat → Int) (ord : List Nat) (b : Nat) (f : List Path)
    (hok : fetchFiltered env now resp = .ok f) :
    now + env.cfg.minRefetchDelay ≤
      (fetchAndUpdate env (run env t0 ops) now resp sc0 sc1 ord b).nextRefetch ∧
    (fetchAndUpdate env (run env t0 ops) now resp sc0 sc1 ord b).nextRefetch ≤
      now + env.cfg.refetchInterval := by
  have hf := validate_facts hv
  have hw := run_wf env t0 ops hf.1
  have hbad := (fetchAndUpdate_wf env (run env t0 ops) now resp sc0 sc1 ord b hf.1 hw.1).2
  rw [hw.2] at hbad
  revert hbad
  unfold fetchAndUpdate
  simp only [hok]
  split
  · intro h; cases h
  · next ee _ =>
    intro _
    simp only [markInit, reevaluate_nextRefetch, afterOk]
    have := nextAfterOk_bounds env.cfg now ee
    omega

/-- **refetch_before_earliest_expiry.** After a fetch that *succeeds* at `now` in a reachable state of a
    validated configuration, the next lookup is scheduled no later than `min_expiry_threshold` before the
    expiry of EVERY cached path – the active one and every spare path a failover may switch to – unless
    `min_refetch_delay` forbids it: `next_refetch ≤ max(now + min_refetch_delay, expiry − min_expiry_threshold)`.
    (The harness checks the same bound on the real code: `C06:refetch-window:after-earliest-expiry`, and
    classifies a sender left without a path between that bound and a later schedule as
    `C06:without-path:schedule-ignores-spare-expiry`.) -/
theorem refetch_before_earliest_expiry (env : Env) (hv : validate env.cfg = true) (t0 : Nat) (ops : List Op)
    (now : Nat) (resp : Resp) (sc0 sc1 : Nat → Int) (ord : List Nat) (b : Nat) (f : List Path)
    (hok : fetchFiltered env now resp = .ok f) :
    ∀ e ∈ (fetchAndUpdate env (run env t0 ops) now resp sc0 sc1 ord b).cached, ∀ x, e.expiry = some x →
      (fetchAndUpdate env (run env t0 ops) now resp sc0 sc1 ord b).nextRefetch ≤
        max (now + env.cfg.minRefetchDelay) (x * NS - env.cfg.minExpiryThreshold) := by
  have hf := validate_facts hv
  have hw := run_wf env t0 ops hf.1
  have hbad := (fetchAndUpdate_wf env (run env t0 ops) now resp sc0 sc1 ord b hf.1 hw.1).2
  rw [hw.2] at hbad
  revert hbad
  unfold fetchAndUpdate
  simp only [hok]
  split
  · intro h; cases h
  · next ee hee =>
    intro _ e he x hx
    simp only [markInit, reevaluate_nextRefetch, reevaluate_cached, afterOk] at he ⊢
    have he' := (rank_perm _ _).mem_iff.mp he
    apply nextAfterOk_le_of_expiry
    unfold earliestExpiry at hee
    apply minOpt_le hee
    exact List.mem_filterMap.mpr ⟨e, he', hx⟩

/-- **never_without_path.** After every fetch executed at `now` in a reachable state: if some cached
    path is valid (more than `min_expiry_threshold` of lifetime left), a sender asking at `now` gets a
    path. -/
theorem never_without_path (env : Env) (hv : validate env.cfg = true) (t0 : Nat) (ops : List Op)
    (now : Nat) (resp : Resp) (sc0 sc1 : Nat → Int) (ord : List Nat) (b : Nat)
    (h : ∃ e ∈ (fetchAndUpdate env (run env t0 ops) now resp sc0 sc1 ord b).cached,
      checkExpiry e now env.cfg.minExpiryThreshold = .valid) :
    ∃ p, sendCached (fetchAndUpdate env (run env t0 ops) now resp sc0 sc1 ord b) now = some p := by
  have hf := validate_facts hv
  have hw := run_wf env t0 ops hf.1
  obtain ⟨p, hp, hl⟩ := fetchAndUpdate_has_path env (run env t0 ops) now resp sc0 sc1 ord b hf.1 hw.1 h
  refine ⟨p, ?_⟩
  unfold sendCached
  rw [hp]
  simp only [live_not_expiredAt hl]
  rfl

/-- **valid_antitone.** `check_path_expiry = Valid` is antitone in the clock: a path that still has more than
    the threshold left at `t'` had more than the threshold left at every earlier instant. -/
theorem valid_antitone (p : Path) (t t' thr : Nat) (hle : t ≤ t')
    (h : checkExpiry p t' thr = .valid) : checkExpiry p t thr = .valid := by
  unfold checkExpiry at h ⊢
  generalize p.expiryNs = x at h ⊢
  split at h
  · cases h
  · split at h
    · cases h
    · rw [if_neg (by omega), if_neg (by omega)]

/-- **empty_slot_none_valid.** The contrapositive of `never_without_path`, in the form the correspondence
    harness uses to classify a sender that finds the active slot empty: when the slot is empty after the
    lookup the worker executed at `te` (reachable state, validated configuration), NO cached path had more
    than `min_expiry_threshold` left at `te` - hence none has at `max now te` for whatever clock value
    `now` a sender asks with, also one that lies before `te` (a clock that stepped back).  Such a state is
    the open class `only-near-expiry-paths` (or an empty / expired cache), never a path the worker
    overlooked. -/
theorem empty_slot_none_valid (env : Env) (hv : validate env.cfg = true) (t0 : Nat) (ops : List Op)
    (te : Nat) (resp : Resp) (sc0 sc1 : Nat → Int) (ord : List Nat) (b : Nat)
    (hnone : (fetchAndUpdate env (run env t0 ops) te resp sc0 sc1 ord b).active = none) (now : Nat) :
    ∀ e ∈ (fetchAndUpdate env (run env t0 ops) te resp sc0 sc1 ord b).cached,
      checkExpiry e (max now te) env.cfg.minExpiryThreshold ≠ .valid := by
  intro e he hval
  have hf := validate_facts hv
  have hw := run_wf env t0 ops hf.1
  have hte := valid_antitone e te (max now te) env.cfg.minExpiryThreshold (Nat.le_max_right now te) hval
  obtain ⟨p, hp, _⟩ := fetchAndUpdate_has_path env (run env t0 ops) te resp sc0 sc1 ord b hf.1 hw.1 ⟨e, he, hte⟩
  rw [hnone] at hp
  cases hp

/- **never_without_path** at full strength (FALSE on the current code – known findings
   `C06:without-path:active-expired-between-ticks` and `C06:without-path:only-near-expiry-paths`):
     in every reachable state, at every instant `now`: some cached path is not expired at `now`
       ⟹ `cached_path` hands out a path.
   `never_without_path` above is the partial result (right after a fetch, "valid" = more than
   `min_expiry_threshold` left); the two witnesses below refute the full statement. -/

private def cfgT : Cfg :=
  { defaultCfg with refetchInterval := 10 * NS, minRefetchDelay := 1 * NS, minExpiryThreshold := 5 * NS }
private def envT : Env := { cfg := cfgT, src := 1, dst := 2, allowed := fun _ => true }
/-- A expires 100 s after the start and is ranked first, B lives for hours -/
private def pA : Path := ⟨1, some 100, 1, 2, some [⟨1, 3⟩, ⟨2, 2⟩], some 3, some 2⟩
private def pB : Path := ⟨2, some 10000, 1, 2, some [⟨1, 1⟩, ⟨7, 1⟩, ⟨7, 4⟩, ⟨2, 1⟩], some 1, some 1⟩
private def scT : Nat → Int := fun fp => if fp = 1 then 96 else 94
/-- fetch ok at 0 s; the fetches at 10 s and 70 s fail with backoffs 60 s and 90 s (next tick: 160 s) -/
private def opsT : List Op :=
  [.maintain 0 (.ok [pA, pB]) scT scT [1, 2] 0,
   .maintain (10 * NS) .errOther scT scT [] (60 * NS),
   .maintain (70 * NS) .errOther scT scT [] (90 * NS)]

/-- **without_path_between_ticks_witness.** A validated configuration and a reachable state in which a
    cached path (B) is valid for hours, yet `cached_path` hands out nothing: the active path (A)
    expired between two maintenance ticks. -/
theorem without_path_between_ticks_witness :
    ¬ (∀ (env : Env) (t0 : Nat) (ops : List Op) (now : Nat), validate env.cfg = true →
        (∃ e ∈ (run env t0 ops).cached, e.expiredAt now = false) →
        ∃ p, sendCached (run env t0 ops) now = some p) := by
  intro h
  obtain ⟨p, hp⟩ := h envT 0 opsT (101 * NS) (by decide) ⟨pB, by decide, by decide⟩
  have hn : sendCached (run envT 0 opsT) (101 * NS) = none := by decide
  rw [hn] at hp
  cases hp

/-- the only fetched path has 4 s left, `min_expiry_threshold` is 5 s -/
private def pN : Path := ⟨1, some 4, 1, 2, some [⟨1, 3⟩, ⟨2, 2⟩], some 3, some 2⟩
private def opsN : List Op := [.maintain 0 (.ok [pN]) scT scT [1] 0]

/-- **without_path_near_expiry_witness.** Right after a successful fetch: the one cached path is not
    expired (4 s left) but closer to its expiry than `min_expiry_threshold`; it is never made active and
    the sender gets nothing. -/
theorem without_path_near_expiry_witness :
    ¬ (∀ (env : Env) (t0 : Nat) (ops : List Op) (now : Nat), validate env.cfg = true →
        (∃ e ∈ (run env t0 ops).cached, e.expiredAt now = false) →
        ∃ p, sendCached (run env t0 ops) now = some p) := by
  intro h
  obtain ⟨p, hp⟩ := h envT 0 opsN (1 * NS) (by decide) ⟨pN, by decide, by decide⟩
  have hn : sendCached (run envT 0 opsN) (1 * NS) = none := by decide
  rw [hn] at hp
  cases hp

/-- non-vacuity of `empty_slot_none_valid`: a validated configuration and a lookup after which the slot is empty
    although the cache is not (the near-expiry witness above) -/
example : validate envT.cfg = true ∧
    (fetchAndUpdate envT (run envT 0 []) 0 (.ok [pN]) scT scT [1] 0).active = none ∧
    pN ∈ (fetchAndUpdate envT (run envT 0 []) 0 (.ok [pN]) scT scT [1] 0).cached := by decide

/-- the clock steps back: expiry at 6 s, threshold 5 s.  At the lookup instant te = 1.5 s the path has 4.5 s left
    (near expiry, the slot stays empty); a sender whose clock stepped back to 0.5 s sees 5.5 s left (valid by its own
    clock) and still gets nothing - judged at `max now te` it is the near-expiry class, which is what
    `empty_slot_none_valid` guarantees (corpus/C06/040). -/
private def pS : Path := ⟨1, some 6, 1, 2, some [⟨1, 3⟩, ⟨2, 2⟩], some 3, some 2⟩
example :
    (fetchAndUpdate envT (run envT 0 []) (3 * NS / 2) (.ok [pS]) scT scT [1] 0).active = none ∧
    pS ∈ (fetchAndUpdate envT (run envT 0 []) (3 * NS / 2) (.ok [pS]) scT scT [1] 0).cached ∧
    checkExpiry pS (NS / 2) envT.cfg.minExpiryThreshold = .valid ∧
    checkExpiry pS (max (NS / 2) (3 * NS / 2)) envT.cfg.minExpiryThreshold = .near ∧
    sendCached (fetchAndUpdate envT (run envT 0 []) (3 * NS / 2) (.ok [pS]) scT scT [1] 0) (NS / 2) = none := by
  decide

/- (kept for reference) between maintenance ticks: the active path is only
   re-evaluated on maintenance ticks and issue deliveries; after a failed fetch the next tick is a
   backoff away, which may be later than the active path's expiry (then `cached_path` returns `None`
   although another cached path is still valid).  The harness checks every send of every history
   (oracle `C06:without-path*`). -/

/-! ## non-vacuity -/
example : validate defaultCfg = true := by decide
private def pV : Path := ⟨1, some 5000, 1, 2, some [⟨1, 1⟩, ⟨2, 2⟩], some 1, some 2⟩
private def envV : Env := { cfg := defaultCfg, src := 1, dst := 2, allowed := fun _ => true }
example : sendCached (fetchAndUpdate envV (run envV 0 []) 0 (.ok [pV]) (fun _ => 0) (fun _ => 0) [] 0) 0 = some pV := by
  decide
example : ∃ e, fetchFiltered envV 0 .errOther = .error e := ⟨.other, rfl⟩
example : ∃ f, fetchFiltered envV 0 (.ok [pV]) = .ok f := by
  have h : (fetchFiltered envV 0 (.ok [pV])).toBool = true := by decide
  cases hh : fetchFiltered envV 0 (.ok [pV]) with
  | ok f => exact ⟨f, rfl⟩
  | error e => rw [hh] at h; cases h
example : ∃ e ∈ (fetchAndUpdate envV (run envV 0 []) 0 (.ok [pV]) (fun _ => 0) (fun _ => 0) [] 0).cached,
    e.expiry = some 5000 := ⟨pV, by decide, rfl⟩
example : (fetchFiltered envV 0 (.ok [pV])).toBool = true := by decide
example : (run envT 0 opsT).nextRefetch = 160 * NS ∧ (run envT 0 opsT).active = some pA := by decide
example : (run envW 0 opsW).im.fifo.length = 4 ∧ (run envW 0 opsW).im.cache.length = 1 := by decide

end ScionVerif.PathMgr
