import ScionVerif.Lemmas.Codec
import ScionVerif.Spec.RefDecode
/-!
# C03 — the wire codec is lossless, matches the SCION format, never truncates silently

Property theorems over `Model/Packet.lean` (`wireValid`, `requiredSize`, `encode`, `decode` – mirrors of
`WireEncode` / `PayloadEncode` / `TryFromView` including the `as u8` / `as u16` casts and the 4- and 6-bit
fields), `Model/Checksum.lean` (`ChecksumDigest`) and the independent `Spec/RefDecode.lean`; all bit ranges,
sizes and tables come from `Generated/*.lean`.

Status of the clauses (see also checks/C03.json `level_note`):
* proved here for all models / byte strings: `unrepresentable_rejected`, `checksum_alignment_independent`,
  `checksum_spec` (which includes: no `u32` overflow), and the lossless round trip `decode (encode x) = x` with
  the exact encoded length for the three path building blocks – info field, hop field and the whole standard
  path (`info_decode_encode`, `hop_decode_encode`, `std_path_decode_encode`);
* validated on every run by the correspondence harness against the real encoder / decoder, the reference
  decoder and an independent RFC 1071 implementation, not yet proved: `encode_length` / `decode_encode` for the
  whole packet (common + address header, UDP, SCMP), `ref_agrees`, `len_fields_truthful`, `checksum_verifies`,
  `encode_decode_canonical`.
-/
namespace ScionVerif.Packet
open ScionVerif ScionVerif.Layout ScionVerif.Generated.Layout ScionVerif.Generated.AddrType

/-! ## 1. a model that cannot be represented on the wire is rejected -/

/-- **unrepresentable_rejected**: for every well-typed packet model (raw, UDP or SCMP payload, every address
and path kind), if the model is not `Representable` – payload larger than the 16-bit PayloadLen field, header
longer than 1020 bytes or not 4-aligned, flow id ≥ 2^20, an unknown host address whose id does not fit 2 bits /
whose nibble is the one of IPv4, IPv6 or service addresses / whose length is not 4–16, a standard path with
0 or more than 3 segments, an empty or >63-hop segment, more than 64 hop fields in total, a current index out of
range or not fitting its 6-bit field, an unsupported path carrying a supported path type, an unknown SCMP message carrying a known type,
a next-header value or SCMP code that is the non-canonical alias `Other(k)` / `Unassigned(k)` of an assigned `k`
(modelled as `256 + k`) –
then `try_encode_to_vec` returns an error.  (This is the contrapositive of `encode ok ⇒ Representable`; that an
accepted model is then written *without* truncation is the unproved whole-packet round trip, see checks/C03.json.)

On the tree before the `fix:` commits of this property the statement was false (raw payload of 70 000 bytes →
PayloadLen 4464; UDP payload of 65 530 bytes → PayloadLen 2; `Unknown{id:0, 4 bytes}` → decoded as IPv4;
`Unsupported{Scion}`; `current_hop_field = 70` → 6; `ScmpMessageUnknown{type 128}`), see known_findings/C03.json. -/
theorem unrepresentable_rejected (p : PacketM) (hw : p.WellTyped) (h : ¬ p.Representable) :
    ∃ e, encode p = .error e := by
  cases he : encode p with
  | error e => exact ⟨e, rfl⟩
  | ok b => exact absurd (encode_ok_representable p hw b he) h

/-- the hypotheses are satisfiable in both directions: an accepted model … -/
example : (encode ⟨⟨0, 1, 17, 1, 2, .v4 [10, 0, 0, 1], .v4 [10, 0, 0, 2], .empty⟩, .raw [1, 2, 3]⟩).toOption.isSome = true := by
  decide
/-- … and rejected unrepresentable ones (host `Unknown{id:0, 4 bytes}` aliases IPv4; current hop 70 of 80) -/
example : (encode ⟨⟨0, 1, 17, 1, 2, .unknown 0 [10, 0, 0, 1], .v4 [10, 0, 0, 2], .empty⟩, .raw []⟩).toOption = none := by
  decide
example : ¬ (PacketM.Representable ⟨⟨0, 1, 17, 1, 2, .unknown 0 [10, 0, 0, 1], .v4 [10, 0, 0, 2], .empty⟩, .raw []⟩) := by
  simp [PacketM.Representable, HostAddr.Representable]
/-- `ProtocolNumber::Other(17)` (= 256 + 17) aliases UDP: rejected (accepted before 700dda7) -/
example : (encode ⟨⟨0, 1, 273, 1, 2, .v4 [10, 0, 0, 1], .v4 [10, 0, 0, 2], .empty⟩, .raw [1]⟩).toOption = none := by
  decide

/-! ## 2. checksum -/

open ScionVerif.Checksum in
/-- **checksum_spec / checksum_alignment_independent**: for every ISD-AS pair, every pair of encoded host
addresses (even length ≤ 16), every protocol number and every message of up to 130 000 bytes, and for *every*
combination of 2-byte alignments of the three slices handed to `add_slice`, the digest
`with_pseudoheader(addr, proto, msg).add_slice(msg).checksum()` never overflows its `u32` accumulator and
equals the specified checksum: the complement of the folded one's-complement sum of the big-endian 16-bit words
of `pseudo-header ‖ message`. -/
theorem checksum_spec (dstIa srcIa : Nat) (dstHost srcHost : Bytes) (proto : Nat) (msg : Bytes) (a1 a2 a3 : Bool)
    (hd : dstHost.length % 2 = 0) (hs : srcHost.length % 2 = 0) (hdl : dstHost.length ≤ 16) (hsl : srcHost.length ≤ 16)
    (hm : msg.length ≤ 130000) :
    messageChecksum dstIa srcIa dstHost srcHost proto msg a1 a2 a3
      = some (specChecksum (pseudoHeader dstIa srcIa dstHost srcHost proto msg.length ++ msg)) :=
  messageChecksum_eq_spec dstIa srcIa dstHost srcHost proto msg a1 a2 a3 hd hs hdl hsl hm

open ScionVerif.Checksum in
theorem checksum_alignment_independent (dstIa srcIa : Nat) (dstHost srcHost : Bytes) (proto : Nat) (msg : Bytes)
    (a1 a2 a3 b1 b2 b3 : Bool)
    (hd : dstHost.length % 2 = 0) (hs : srcHost.length % 2 = 0) (hdl : dstHost.length ≤ 16) (hsl : srcHost.length ≤ 16)
    (hm : msg.length ≤ 130000) :
    messageChecksum dstIa srcIa dstHost srcHost proto msg a1 a2 a3
      = messageChecksum dstIa srcIa dstHost srcHost proto msg b1 b2 b3 := by
  rw [checksum_spec _ _ _ _ _ _ a1 a2 a3 hd hs hdl hsl hm, checksum_spec _ _ _ _ _ _ b1 b2 b3 hd hs hdl hsl hm]

open ScionVerif.Checksum in
/-- RFC 1071 worked example through the digest at both alignments -/
example : addSlice 0 true [0x00, 0x01, 0xf2, 0x03, 0xf4, 0xf5, 0xf6, 0xf7] = some 0xddf2 ∧
          addSlice 0 false [0x00, 0x01, 0xf2, 0x03, 0xf4, 0xf5, 0xf6, 0xf7] = some 0xddf2 := by decide


/-! ## 3. lossless round trip of the path building blocks -/

/-- **info_decode_encode**: every info field (`u8` flags, `u16` segment id, `u32` timestamp) encodes to exactly
8 bytes that decode back to it. -/
theorem info_decode_encode (i : InfoFieldM) (h : i.WellTyped) :
    decodeInfo (encodeInfo i) = i ∧ (encodeInfo i).length = InfoField.SIZE_BYTES :=
  ⟨decodeInfo_encodeInfo i h, encodeInfo_length i⟩

/-- **hop_decode_encode**: every hop field encodes to exactly 12 bytes that decode back to it. -/
theorem hop_decode_encode (h : HopFieldM) (hw : h.WellTyped) :
    decodeHop (encodeHop h) = h ∧ (encodeHop h).length = HopField.SIZE_BYTES :=
  ⟨decodeHop_encodeHop h hw, encodeHop_length h hw⟩

/-- **std_path_decode_encode**: every representable standard path – 1 to 3 segments of 1 to 63 hop fields each (at most 64
in total), current indices in range and within their 2- / 6-bit fields, arbitrary field values of the Rust types – encodes
(`StandardPath::encode_unchecked`) to exactly `required_size()` bytes, and `StandardPath::from_view` of those
bytes is the original path: meta header, every info field, every hop field and the segment structure. -/
theorem std_path_decode_encode (p : StdPathM) (hr : p.Representable) (hw : p.WellTyped) :
    decodeStd (encodeStd p) = p ∧ (encodeStd p).length = p.requiredSize :=
  decodeStd_encodeStd p hr hw

example : StdPathM.Representable ⟨0, 1, [⟨⟨1, 7, 9⟩, [⟨0, 1, 2, 3, [1, 2, 3, 4, 5, 6]⟩, ⟨0, 1, 2, 3, [1, 2, 3, 4, 5, 6]⟩]⟩]⟩ := by
  refine ⟨by decide, by decide, ?_, by decide, by decide, by decide, by decide⟩
  intro s hs; simp at hs; subst hs; decide

end ScionVerif.Packet
