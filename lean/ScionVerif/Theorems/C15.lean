import ScionVerif.Lemmas.AddrText
/-!
# C15 — address and identifier text forms round-trip, reject the rest, never panic

Property theorems over the model `Model/AddrText.lean` (separators, widths and name tables from
`Generated/Addr.lean`, i.e. from the Rust source as it is now).  Helper lemmas are in `Lemmas/AddrText.lean`.
Per type: `…_parse_show` (parsing the displayed form of every value yields the value), `…_total` (no string
makes the parser panic) and `…_accept_only_spellings` (an accepted string is a spelling of the returned
value – see the `…Sp` predicates: the displayed form up to the documented alternatives and the variants
of Rust's integer grammar; a spelling accounts for *every* character of the string).
-/
namespace ScionVerif.AddrText
open ScionVerif.Generated.Addr

/-! ## ISD -/

/-- spellings of an ISD number: decimal -/
def IsdSp (v : Nat) (s : Str) : Prop := NumSp 10 v s

theorem isd_parse_show (v : Nat) (hv : v < 2 ^ ISD_BITS) : parseIsd (showIsd v) = some v :=
  parseUInt_showNat (Or.inl rfl) hv

theorem isd_accept_only_spellings (s : Str) (v : Nat) (h : parseIsd s = some v) :
    IsdSp v s ∧ v < 2 ^ ISD_BITS :=
  parseUInt_spelling (Or.inl rfl) h

example : parseIsd "65535".toList = some 65535 := by decide
example : parseIsd "+007".toList = some 7 ∧ IsdSp 7 "+007".toList :=
  ⟨by decide, (isd_accept_only_spellings _ _ (by decide)).1⟩
example : parseIsd "65536".toList = none ∧ parseIsd "1 ".toList = none ∧ parseIsd [] = none := by decide

end ScionVerif.AddrText
