import ScionVerif.Lemmas.AddrText
/-!
# C15 — address and identifier text forms round-trip, reject the rest, never panic

Property theorems over the model `Model/AddrText.lean` (separators, widths and name tables from
`Generated/Addr.lean`, i.e. from the Rust source as it is now).  Generic helper lemmas (digits, `str`
primitives, white space, table facts) are in `Lemmas/AddrText.lean`.

Per type – ISD, AS, ISD-AS, service, host, SCION address (`ScionAddr`, `ScionIpAddr`, the per-variant
structs), SCION socket address (`ScionSocketAddr`, `ScionSocketIpAddr`, the per-variant structs), DNS TXT payload:

* `…_parse_show`: for **every value** of the type, parsing its displayed form yields that value;
* `…_total`: for **every string**, the parser does not reach a panic site (stated for the parsers whose Rust
  code contains one: `expect`, slices, the loop; the others are `Option`-valued by construction);
* `…_accept_only_spellings`: for **every string**, if it is accepted then it is a *spelling* of the returned
  value.  The `…Sp` predicates define spellings declaratively and account for **every character** of the
  string: the displayed form up to the documented alternatives (decimal AS below 2^32 / colon-hex, `_A`,
  the numeric service form, TXT white space, whatever std reads as that IP address) and the variants Rust's
  integer grammar admits (`+`, leading zeros, upper-case hex – an explicit decision of DESIGN §5 C15).  So
  nothing before, between or after is silently dropped.

The layers build on each other (the host theorems use the service theorems, …), which is why the stepping
stones between them live in this file too; the property theorems proper are the ones listed in
`checks/C15.json`.  IPv4 / IPv6 text is std's and enters through the parameter `C : HostCodec` with the
explicit hypothesis `C.Lawful` (satisfiable: `toyCodec_lawful`; checked on std itself by the harness).

DNS TXT *record level* (last section; `txt_record_to_string`, the record loop of `resolve`,
`resolve_txt_records_with_invalid`): `txtRecords_total` (no panic for any list of resource records, any split
into character-strings, any UTF-8 decoder), `txtRecords_accepts_iff` / `txtRecords_accept_only_spellings` (the
returned addresses are exactly, in order, those of the records that are the version prefix followed by a payload
spelling – `TxtRecordsSp`), `txtRecords_noValid_iff` / `txtRecords_noValid_entries` (the lookup fails iff there is no
such record; which invalid entries are reported), `txtRecords_parse_show` (written records resolve to their
addresses however they are split).  `String::from_utf8` is std's: parameter `U : Utf8Codec`, hypothesis `U.Lawful`
only for the round trip (satisfiable: `asciiUtf8_lawful`).
-/
namespace ScionVerif.AddrText
open ScionVerif.Generated.Addr

/-! ## ISD -/

/-- spellings of an ISD number: decimal -/
def IsdSp (v : Nat) (s : Str) : Prop := NumSp 10 v s

theorem isd_parse_show (v : Nat) (hv : v < 2 ^ ISD_BITS) : parseIsd (showIsd v) = some v :=
  parseUInt_showNat (Or.inl rfl) hv

theorem isd_accept_only_spellings (s : Str) (v : Nat) (h : parseIsd s = some v) :
    IsdSp v s ∧ v < 2 ^ ISD_BITS :=
  parseUInt_spelling (Or.inl rfl) h

example : parseIsd "65535".toList = some 65535 := by decide
example : parseIsd "+007".toList = some 7 ∧ IsdSp 7 "+007".toList :=
  ⟨by decide, (isd_accept_only_spellings _ _ (by decide)).1⟩
example : parseIsd "65536".toList = none ∧ parseIsd "1 ".toList = none ∧ parseIsd [] = none := by decide

/-! ## AS number -/

/-- spellings of an AS number: decimal (documented: only below 2^32), or three colon-separated hex parts
    of 16 bit each (documented alternative also for small values, e.g. `0:0:1`) -/
def AsnSp (v : Nat) (s : Str) : Prop :=
  (v ≤ ASN_PARSE_DECIMAL_MAX ∧ NumSp 10 v s) ∨
  (∃ a b c sa sb sc, a < 2 ^ 16 ∧ b < 2 ^ 16 ∧ c < 2 ^ 16 ∧ v = (a * 2 ^ 16 + b) * 2 ^ 16 + c ∧
    s = sa ++ ASN_SEP :: (sb ++ ASN_SEP :: sc) ∧ NumSp 16 a sa ∧ NumSp 16 b sb ∧ NumSp 16 c sc)

theorem asn_parse_show (v : Nat) (hv : v ≤ ASN_MAX) : parseAsn (showAsn v) = some v := by
  unfold showAsn
  by_cases hd : v ≤ ASN_DISPLAY_DECIMAL_MAX
  · rw [if_pos hd]
    unfold parseAsn
    rw [parseUInt_showNat (Or.inl rfl) (by simp [ASN_DISPLAY_DECIMAL_MAX, ASN_DECIMAL_PARSE_BITS] at hd ⊢; omega)]
    simp [ASN_PARSE_DECIMAL_MAX, ASN_DISPLAY_DECIMAL_MAX] at hd ⊢; simp [hd]
  · rw [if_neg hd]
    unfold parseAsn
    rw [showAsn_hex]
    have hsep : ASN_SEP ∈ showNat 16 (v / 2 ^ 32 % 2 ^ 16) ++ ASN_SEP :: (showNat 16 (v / 2 ^ 16 % 2 ^ 16) ++ ASN_SEP :: showNat 16 (v % 2 ^ 16)) := by simp
    rw [parseUInt_none_of_mem (Or.inl rfl) ASN_SEP hsep sep_not_digit.1 sep_not_digit.2.1 sep_not_digit.2.2]
    have hn : ∀ n, ASN_SEP ∉ showNat 16 n := fun n hm => sep_not_digit.2.1 (showNat_chars (by omega) n _ hm)
    have h3 : ASN_NUMBER_PARTS = 3 := rfl
    simp only [h3, splitN_three, splitOnce_append (hn _)]
    simp only [foldAsnParts, ASN_PART_RADIX, ASN_PART_PARSE_BITS, ASN_BITS_PER_PART,
      parseUInt_showNat (Or.inr rfl) (Nat.mod_lt _ (by omega : 0 < 2 ^ 16))]
    simp [ASN_MAX] at hv ⊢
    omega

theorem asn_accept_only_spellings (s : Str) (v : Nat) (h : parseAsn s = some v) : AsnSp v s ∧ v ≤ ASN_MAX := by
  unfold parseAsn at h
  split at h
  · next bgp hb =>
    split at h
    · next hle =>
      cases h
      exact ⟨Or.inl ⟨hle, (parseUInt_spelling (Or.inl rfl) hb).1⟩, by simp [ASN_PARSE_DECIMAL_MAX, ASN_MAX] at hle ⊢; omega⟩
    · cases h
  · split at h
    · next val n hf =>
      split at h
      · next hn =>
        split at h
        · next hle =>
          cases h
          refine ⟨Or.inr ?_, hle⟩
          have h3 : ASN_NUMBER_PARTS = 3 := rfl
          rw [h3, splitN_three] at hf
          subst hn
          split at hf
          · next a b hab =>
            split at hf
            · next c d hcd =>
              obtain ⟨x, y, z, hx, hy, hz, hval, _⟩ := foldAsnParts_three hf
              obtain ⟨h1, _⟩ := splitOnce_some hab
              obtain ⟨h2, _⟩ := splitOnce_some hcd
              obtain ⟨sx, bx⟩ := parseUInt_spelling (Or.inr rfl) hx
              obtain ⟨sy, by'⟩ := parseUInt_spelling (Or.inr rfl) hy
              obtain ⟨sz, bz⟩ := parseUInt_spelling (Or.inr rfl) hz
              exact ⟨x, y, z, a, c, d, bx, by', bz, hval, by rw [h1, h2], sx, sy, sz⟩
            · have := foldAsnParts_count _ _ _ _ _ hf; simp at this; omega
          · have := foldAsnParts_count _ _ _ _ _ hf; simp at this; omega
        · cases h
      · cases h
    · cases h

example : parseAsn "ff00:0:110".toList = some 0xff0000000110 := by decide
example : parseAsn "4294967296".toList = none ∧ parseAsn "0:0:0:0".toList = none ∧ parseAsn "1:0".toList = none := by decide

/-! ## ISD-AS -/

/-- spellings of an ISD-AS number: `isd "-" asn` -/
def IsdAsnSp (v : Nat) (s : Str) : Prop :=
  ∃ i a si sa, i < 2 ^ ISD_BITS ∧ a ≤ ASN_MAX ∧ v = mkIa i a ∧ s = si ++ IA_SEP :: sa ∧ IsdSp i si ∧ AsnSp a sa

theorem isdAsn_parse_show (v : Nat) (hv : v < 2 ^ IA_BITS) : parseIsdAsn (showIsdAsn v) = .ok v := by
  unfold parseIsdAsn showIsdAsn
  have hcount : (((showIsd (v / 2 ^ ASN_BITS) ++ [IA_SEP] ++ showAsn (v % 2 ^ ASN_BITS)).filter (· == IA_SEP)).take 2).length = 1 := by
    simp [List.filter_append, filter_sep_of_not_mem (ia_sep_not_in_isd _), filter_sep_of_not_mem (ia_sep_not_in_asn _)]
  rw [if_neg (by rw [hcount]; simp)]
  have : showIsd (v / 2 ^ ASN_BITS) ++ [IA_SEP] ++ showAsn (v % 2 ^ ASN_BITS) =
      showIsd (v / 2 ^ ASN_BITS) ++ IA_SEP :: showAsn (v % 2 ^ ASN_BITS) := by simp
  rw [this, splitOnce_append (ia_sep_not_in_isd _)]
  have hi : v / 2 ^ ASN_BITS < 2 ^ ISD_BITS := by
    simp [ASN_BITS, ISD_BITS, IA_BITS] at hv ⊢; omega
  have ha : v % 2 ^ ASN_BITS ≤ ASN_MAX := by
    simp [ASN_BITS, ASN_MAX]; omega
  simp only [isd_parse_show _ hi, asn_parse_show _ ha, mkIa]
  congr 1
  rw [Nat.mul_comm]; exact Nat.div_add_mod v _

theorem isdAsn_total (s : Str) : parseIsdAsn s ≠ .panic := by
  unfold parseIsdAsn
  split
  · simp
  · next hc =>
    split
    · next hs =>
      exfalso
      have hnm := splitOnce_none hs
      rw [filter_sep_of_not_mem hnm] at hc
      simp at hc
    · split <;> simp

theorem isdAsn_accept_only_spellings (s : Str) (v : Nat) (h : parseIsdAsn s = .ok v) :
    IsdAsnSp v s ∧ v < 2 ^ IA_BITS := by
  unfold parseIsdAsn at h
  split at h
  · cases h
  · split at h
    · cases h
    · next a b hab =>
      split at h
      · next i asn hi ha =>
        cases h
        obtain ⟨h1, _⟩ := splitOnce_some hab
        obtain ⟨si, bi⟩ := isd_accept_only_spellings _ _ hi
        obtain ⟨sa, ba⟩ := asn_accept_only_spellings _ _ ha
        refine ⟨⟨i, asn, a, b, bi, ba, rfl, h1, si, sa⟩, ?_⟩
        simp [mkIa, ASN_BITS, ISD_BITS, IA_BITS, ASN_MAX] at bi ba ⊢; omega
      · cases h

example : parseIsdAsn "1-ff00:0:110".toList = .ok 0x1ff0000000110 := by decide
example : parseIsdAsn "1-1-0:0:1".toList = .err ∧ parseIsdAsn "1".toList = .err ∧ parseIsdAsn "-".toList = .err := by decide

/-! ## service address -/

/-- the part before the suffix: a well-known name, or the numeric form `<SVC:0x` hex `>` -/
def SvcBaseSp (a : Nat) (s : Str) : Prop :=
  (s, a) ∈ SVC_PARSE_NAMES ∨ (∃ hex, s = SVC_PARSE_HEX_OPEN ++ hex ++ SVC_PARSE_HEX_CLOSE ∧ NumSp 16 a hex)

/-- spellings of a service address: base, then nothing or `_A` (anycast) or `_M` (multicast flag set) -/
def SvcSp (v : Nat) (s : Str) : Prop :=
  ∃ a base, a < SVC_MULTICAST_FLAG ∧ SvcBaseSp a base ∧
    ((v = a ∧ (s = base ∨ s = base ++ SVC_SUFFIX_SEP :: SVC_SUFFIX_ANYCAST)) ∨
     (v = a + SVC_MULTICAST_FLAG ∧ s = base ++ SVC_SUFFIX_SEP :: SVC_SUFFIX_MULTICAST))

theorem parseSvcBase_showSvcBase (a : Nat) (ha : a < SVC_MULTICAST_FLAG) :
    SVC_SUFFIX_SEP ∉ showSvcBase a ∧ parseSvcBase (showSvcBase a) = some a := by
  obtain ⟨hshow, hparse, hopen, hclose, hs1, hs2, hs3, hAM, hne, hrad, hbits, _, hflag, hwidth⟩ := svc_tables_ok
  have hanyM : isMulticast a = false := by
    simp only [isMulticast]; rw [hflag] at ha ⊢
    have : a / 2 ^ 15 = 0 := Nat.div_eq_of_lt ha
    simp [this]
  unfold showSvcBase
  cases hl : lookupValue SVC_SHOW_NAMES a with
  | some name =>
    obtain ⟨h1, h2, _⟩ := hshow _ (lookupValue_mem hl)
    exact ⟨h2, by simp [parseSvcBase, h1]⟩
  | none =>
    simp only
    have hdig : ∀ c ∈ padZeros SVC_HEX_WIDTH (showNat 16 a), c ∈ lowerDigits := by
      intro c hc
      unfold padZeros at hc
      rcases List.mem_append.mp hc with hc | hc
      · rw [List.mem_replicate] at hc; rcases hc with ⟨_, rfl⟩; decide
      · exact showNat_chars (by omega) _ c hc
    refine ⟨?_, ?_⟩
    · simp only [List.mem_append, not_or]
      exact ⟨⟨hs1, fun hm => hs3 (hdig _ hm)⟩, hs2⟩
    · have hnone : lookupName SVC_PARSE_NAMES (SVC_HEX_OPEN ++ padZeros SVC_HEX_WIDTH (showNat 16 a) ++ SVC_HEX_CLOSE) = none := by
        apply lookupName_none
        intro p hp heq
        have := (hparse p hp).1
        rw [heq] at this
        apply this
        cases hO : SVC_HEX_OPEN with
        | nil => exact absurd hO hne
        | cons x xs => simp
      unfold parseSvcBase
      rw [hnone]
      simp only
      have h1 : stripPrefix SVC_PARSE_HEX_OPEN (SVC_HEX_OPEN ++ padZeros SVC_HEX_WIDTH (showNat 16 a) ++ SVC_HEX_CLOSE) =
          some (padZeros SVC_HEX_WIDTH (showNat 16 a) ++ SVC_HEX_CLOSE) := by
        rw [stripPrefix_some, hopen]; simp
      have h2 : stripSuffix SVC_PARSE_HEX_CLOSE (padZeros SVC_HEX_WIDTH (showNat 16 a) ++ SVC_HEX_CLOSE) =
          some (padZeros SVC_HEX_WIDTH (showNat 16 a)) := by
        rw [stripSuffix_some, hclose]
      rw [h1]; simp only; rw [h2]; simp only
      unfold padZeros
      rw [hrad, hbits, parseUInt_zeros_showNat (Or.inr rfl) (by rw [hflag] at ha; omega)]
      simp [hanyM]

theorem svc_parse_show (v : Nat) (hv : v < 2 ^ SVC_BITS) : parseSvc (showSvc v) = some v := by
  obtain ⟨_, _, _, _, _, _, _, hAM, _⟩ := svc_tables_ok
  obtain ⟨hany, hanyM, hM, hA⟩ := svc_flag_facts v hv
  obtain ⟨hsep, hpb⟩ := parseSvcBase_showSvcBase _ hany
  unfold showSvc parseSvc
  by_cases hm : isMulticast v = true
  · simp only [hm, if_true]
    have : splitSvcSuffix (showSvcBase (toAnycast v) ++ SVC_SUFFIX_SEP :: SVC_SUFFIX_MULTICAST) =
        (showSvcBase (toAnycast v), SVC_SUFFIX_MULTICAST) := by
      unfold splitSvcSuffix; rw [splitOnce_append hsep]
    rw [this]
    simp only [hpb]
    rw [if_neg (Ne.symm hAM)]
    simp only [if_true, toMulticast, hanyM]
    simp [hM hm]
  · have hm' : isMulticast v = false := by simpa using hm
    simp only [hm', Bool.false_eq_true, if_false, List.append_nil]
    have : splitSvcSuffix (showSvcBase (toAnycast v)) = (showSvcBase (toAnycast v), SVC_SUFFIX_ANYCAST) := by
      unfold splitSvcSuffix; rw [splitOnce_of_not_mem hsep]
    rw [this]
    simp only [if_true]
    rw [hpb]
    simp only [hA hm']

theorem parseSvcBase_spelling {service : Str} {a : Nat} (h : parseSvcBase service = some a) :
    SvcBaseSp a service ∧ a < SVC_MULTICAST_FLAG := by
  obtain ⟨_, hparse, _, _, _, _, _, _, _, hrad, hbits, hsb, hflag, _⟩ := svc_tables_ok
  unfold parseSvcBase at h
  split at h
  · next v0 hl => cases h; exact ⟨Or.inl (lookupName_mem hl), (hparse _ (lookupName_mem hl)).2⟩
  · split at h
    · cases h
    · next rest hp =>
      split at h
      · cases h
      · next hex hsuf =>
        split at h
        · cases h
        · next value hu =>
          split at h
          · cases h
          · next hnm =>
            cases h
            rw [stripPrefix_some] at hp
            rw [stripSuffix_some] at hsuf
            rw [hrad, hbits] at hu
            obtain ⟨hsp', hlt⟩ := parseUInt_spelling (Or.inr rfl) hu
            refine ⟨Or.inr ⟨hex, by rw [hp, hsuf]; simp, hsp'⟩, ?_⟩
            simp only [isMulticast, SVC_MULTICAST_FLAG] at hnm ⊢
            have : ¬ (a / 32768 % 2 = 1) := by simpa using hnm
            omega

theorem svc_accept_only_spellings (s : Str) (v : Nat) (h : parseSvc s = some v) : SvcSp v s ∧ v < 2 ^ SVC_BITS := by
  obtain ⟨_, _, _, _, _, _, _, _, _, _, _, hsb, hflag, _⟩ := svc_tables_ok
  unfold parseSvc at h
  cases hsp : splitSvcSuffix s with
  | mk service suffix =>
    rw [hsp] at h
    simp only at h
    have hs : (s = service ∧ suffix = SVC_SUFFIX_ANYCAST) ∨ s = service ++ SVC_SUFFIX_SEP :: suffix := by
      unfold splitSvcSuffix at hsp
      split at hsp
      · next p hp => subst hsp; exact Or.inr (splitOnce_some hp).1
      · cases hsp; exact Or.inl ⟨rfl, rfl⟩
    split at h
    · cases h
    · next a hbase =>
      obtain ⟨hb, halt⟩ := parseSvcBase_spelling hbase
      have hlt16 : a + SVC_MULTICAST_FLAG < 2 ^ SVC_BITS := by rw [hflag, hsb] at *; omega
      split at h
      · next hA =>
        cases h
        refine ⟨⟨v, service, halt, hb, Or.inl ⟨rfl, ?_⟩⟩, by omega⟩
        rcases hs with ⟨h1, _⟩ | h1
        · exact Or.inl h1
        · exact Or.inr (by rw [h1, hA])
      · split at h
        · next hA hM =>
          cases h
          have hnm : isMulticast a = false := by
            simp only [isMulticast]; rw [hflag] at halt ⊢
            have : a / 2 ^ 15 = 0 := Nat.div_eq_of_lt halt
            simp [this]
          refine ⟨⟨a, service, halt, hb, Or.inr ⟨by simp [toMulticast, hnm], ?_⟩⟩, by simp [toMulticast, hnm]; exact hlt16⟩
          rcases hs with ⟨_, h2⟩ | h1
          · exact absurd h2 hA
          · rw [h1, hM]
        · cases h

example : parseSvc "CS_M".toList = some 0x8002 ∧ parseSvc "<SVC:0x0003>".toList = some 3 ∧
    parseSvc "<SVC:0x8003>".toList = none ∧ parseSvc "CS_".toList = none := by decide
example : showSvc 0xffff = "<SVC:0x7fff>_M".toList := by decide

/-! ## host address (IPv4 / IPv6 text is std's: the `HostCodec` parameter) -/

def ipv4Alphabet : Str := ['0', '1', '2', '3', '4', '5', '6', '7', '8', '9', '.']
def ipv6Alphabet : Str :=
  ['0', '1', '2', '3', '4', '5', '6', '7', '8', '9', 'a', 'b', 'c', 'd', 'e', 'f', 'A', 'B', 'C', 'D', 'E', 'F', ':', '.']

/-- what the theorems assume about `std::net::{Ipv4Addr, Ipv6Addr}` `FromStr` / `Display` (checked on std
    itself by the harness on every run; never an axiom – always an explicit hypothesis) -/
structure HostCodec.Lawful (C : HostCodec) : Prop where
  rt4 : ∀ a, a < 2 ^ 32 → C.parse4 (C.show4 a) = some a
  rt6 : ∀ a, a < 2 ^ 128 → C.parse6 (C.show6 a) = some a
  range4 : ∀ s a, C.parse4 s = some a → a < 2 ^ 32
  range6 : ∀ s a, C.parse6 s = some a → a < 2 ^ 128
  alpha4 : ∀ s a, C.parse4 s = some a → ∀ c ∈ s, c ∈ ipv4Alphabet
  alpha6 : ∀ s a, C.parse6 s = some a → ∀ c ∈ s, c ∈ ipv6Alphabet
  colon6 : ∀ a, a < 2 ^ 128 → ':' ∈ C.show6 a
  disjoint : ∀ s a, C.parse4 s = some a → C.parse6 s = none
  nonempty : C.parse4 [] = none ∧ C.parse6 [] = none

def Host.Valid : Host → Prop
  | .v4 a => a < 2 ^ 32
  | .v6 a => a < 2 ^ 128
  | .svc v => v < 2 ^ SVC_BITS

/-- spellings of a host address: whatever std reads as that IPv4 / IPv6 address, or a service spelling -/
def HostSp (C : HostCodec) : Host → Str → Prop
  | .v4 a, s => C.parse4 s = some a
  | .v6 a, s => C.parse6 s = some a
  | .svc v, s => SvcSp v s

theorem alpha4_sub : ∀ c ∈ ipv4Alphabet, c ∈ ipv6Alphabet := by decide

theorem svcBase_nonip : (∀ p ∈ SVC_PARSE_NAMES, ∃ c ∈ p.1, c ∉ ipv6Alphabet) ∧ (∃ c ∈ SVC_PARSE_HEX_OPEN, c ∉ ipv6Alphabet) := by
  decide

/-- a string accepted as a service address contains a character that no IP text contains -/
theorem parseSvc_nonip {s : Str} {v : Nat} (h : parseSvc s = some v) : ∃ c ∈ s, c ∉ ipv6Alphabet := by
  obtain ⟨⟨a, base, _, hb, hs⟩, _⟩ := svc_accept_only_spellings s v h
  have hbase : ∃ c ∈ base, c ∉ ipv6Alphabet := by
    rcases hb with hb | ⟨hex, rfl, _⟩
    · exact svcBase_nonip.1 _ hb
    · obtain ⟨c, hc, hn⟩ := svcBase_nonip.2
      exact ⟨c, by simp [hc], hn⟩
  obtain ⟨c, hc, hn⟩ := hbase
  refine ⟨c, ?_, hn⟩
  rcases hs with ⟨_, rfl | rfl⟩ | ⟨_, rfl⟩ <;> simp [hc]

theorem parseSvc_none_of_ip {s : Str} (h : ∀ c ∈ s, c ∈ ipv6Alphabet) : parseSvc s = none := by
  cases hp : parseSvc s with
  | none => rfl
  | some v => obtain ⟨c, hc, hn⟩ := parseSvc_nonip hp; exact absurd (h c hc) hn

theorem show4_alpha {C : HostCodec} (hC : C.Lawful) {a : Nat} (ha : a < 2 ^ 32) : ∀ c ∈ C.show4 a, c ∈ ipv4Alphabet :=
  hC.alpha4 _ _ (hC.rt4 a ha)

theorem show6_alpha {C : HostCodec} (hC : C.Lawful) {a : Nat} (ha : a < 2 ^ 128) : ∀ c ∈ C.show6 a, c ∈ ipv6Alphabet :=
  hC.alpha6 _ _ (hC.rt6 a ha)

theorem parse4_show6 {C : HostCodec} (hC : C.Lawful) {a : Nat} (ha : a < 2 ^ 128) : C.parse4 (C.show6 a) = none := by
  cases hp : C.parse4 (C.show6 a) with
  | none => rfl
  | some b => exact absurd (hC.alpha4 _ _ hp ':' (hC.colon6 a ha)) (by decide)

theorem showSvc_nonip (v : Nat) (hv : v < 2 ^ SVC_BITS) : ∃ c ∈ showSvc v, c ∉ ipv6Alphabet :=
  parseSvc_nonip (svc_parse_show v hv)

theorem parse_ip_showSvc {C : HostCodec} (hC : C.Lawful) (v : Nat) (hv : v < 2 ^ SVC_BITS) :
    C.parse4 (showSvc v) = none ∧ C.parse6 (showSvc v) = none := by
  obtain ⟨c, hc, hn⟩ := showSvc_nonip v hv
  constructor
  · cases hp : C.parse4 (showSvc v) with
    | none => rfl
    | some b => exact absurd (alpha4_sub c (hC.alpha4 _ _ hp c hc)) hn
  · cases hp : C.parse6 (showSvc v) with
    | none => rfl
    | some b => exact absurd (hC.alpha6 _ _ hp c hc) hn

theorem host_parse_show (C : HostCodec) (hC : C.Lawful) (h : Host) (hv : h.Valid) :
    parseHost C (showHost C h) = some h := by
  cases h with
  | v4 a => simp [parseHost, showHost, hC.rt4 a hv]
  | v6 a => simp [parseHost, showHost, parse4_show6 hC hv, hC.rt6 a hv]
  | svc v =>
    obtain ⟨h4, h6⟩ := parse_ip_showSvc hC v hv
    simp [parseHost, showHost, h4, h6, svc_parse_show v hv]

theorem host_accept_only_spellings (C : HostCodec) (hC : C.Lawful) (s : Str) (h : Host) (hp : parseHost C s = some h) :
    HostSp C h s ∧ h.Valid := by
  unfold parseHost at hp
  split at hp
  · next a h4 => cases hp; exact ⟨h4, hC.range4 _ _ h4⟩
  · split at hp
    · next a h6 => cases hp; exact ⟨h6, hC.range6 _ _ h6⟩
    · split at hp
      · next v hs => cases hp; exact svc_accept_only_spellings _ _ hs
      · cases hp

/-! ## SCION address `ia,host` -/

def ScionAddr.Valid (a : ScionAddr) : Prop := a.ia < 2 ^ IA_BITS ∧ a.host.Valid

/-- spellings of a SCION address: `isd-as "," host` -/
def AddrSp (C : HostCodec) (a : ScionAddr) (s : Str) : Prop :=
  ∃ sia sh, s = sia ++ ADDR_SEP :: sh ∧ IsdAsnSp a.ia sia ∧ HostSp C a.host sh

theorem parseScionAddrT_total {α : Type} (ph : Str → Option α) (s : Str) : parseScionAddrT ph s ≠ .panic := by
  unfold parseScionAddrT
  split
  · next a b _ =>
    have := isdAsn_total a
    split
    · split <;> simp
    · simp
    · next hp => exact absurd hp this
  · simp

theorem parseScionAddrT_shown {α : Type} (ph : Str → Option α) (ia : Nat) (hia : ia < 2 ^ IA_BITS) (hs : Str) :
    parseScionAddrT ph (showIsdAsn ia ++ [ADDR_SEP] ++ hs) =
      match ph hs with
      | some h => .ok (ia, h)
      | none => .err := by
  unfold parseScionAddrT
  have : showIsdAsn ia ++ [ADDR_SEP] ++ hs = showIsdAsn ia ++ ADDR_SEP :: hs := by simp
  rw [this, splitN_two, splitOnce_append (addr_sep_not_in_ia ia)]
  simp only [isdAsn_parse_show ia hia]
  cases ph hs <;> rfl

theorem parseScionAddrT_ok_inv {α : Type} {ph : Str → Option α} {s : Str} {ia : Nat} {h : α}
    (hp : parseScionAddrT ph s = .ok (ia, h)) :
    ∃ a b, s = a ++ ADDR_SEP :: b ∧ parseIsdAsn a = .ok ia ∧ ph b = some h := by
  unfold parseScionAddrT at hp
  rw [splitN_two] at hp
  split at hp
  · next a b hl =>
    split at hl
    · next x y hxy =>
      simp at hl
      obtain ⟨rfl, rfl⟩ := hl
      split at hp
      · next ia' hia =>
        split at hp
        · next h' hh => cases hp; exact ⟨x, y, (splitOnce_some hxy).1, hia, hh⟩
        · cases hp
      · cases hp
      · cases hp
    · simp at hl
  · cases hp

theorem scionAddr_parse_show (C : HostCodec) (hC : C.Lawful) (a : ScionAddr) (hv : a.Valid) :
    parseScionAddr C (showScionAddr C a) = .ok a := by
  obtain ⟨ia, h⟩ := a
  obtain ⟨hia, hh⟩ := hv
  simp only at hia hh
  unfold parseScionAddr showScionAddr
  simp only [parseScionAddrT_shown _ ia hia]
  cases h with
  | svc v => simp [showHost, svc_parse_show v hh]
  | v4 a =>
    have h1 : parseSvc (C.show4 a) = none :=
      parseSvc_none_of_ip (fun c hc => alpha4_sub c (show4_alpha hC hh c hc))
    simp [showHost, h1, hC.rt4 a hh]
  | v6 a =>
    have h1 : parseSvc (C.show6 a) = none := parseSvc_none_of_ip (show6_alpha hC hh)
    simp [showHost, h1, parse4_show6 hC hh, hC.rt6 a hh]

theorem scionAddr_total (C : HostCodec) (s : Str) : parseScionAddr C s ≠ .panic := by
  unfold parseScionAddr
  have h1 := parseScionAddrT_total parseSvc s
  have h2 := parseScionAddrT_total C.parse4 s
  have h3 := parseScionAddrT_total C.parse6 s
  split
  · simp
  · next h => exact absurd h h1
  · split
    · simp
    · next h => exact absurd h h2
    · split
      · simp
      · next h => exact absurd h h3
      · simp

theorem scionAddr_accept_only_spellings (C : HostCodec) (hC : C.Lawful) (s : Str) (a : ScionAddr)
    (hp : parseScionAddr C s = .ok a) : AddrSp C a s ∧ a.Valid := by
  unfold parseScionAddr at hp
  split at hp
  · next ia v h1 =>
    cases hp
    obtain ⟨x, y, rfl, hia, hh⟩ := parseScionAddrT_ok_inv h1
    obtain ⟨sp, hr⟩ := isdAsn_accept_only_spellings _ _ hia
    obtain ⟨sv, hv⟩ := svc_accept_only_spellings _ _ hh
    exact ⟨⟨x, y, rfl, sp, sv⟩, hr, hv⟩
  · cases hp
  · split at hp
    · next ia v h1 =>
      cases hp
      obtain ⟨x, y, rfl, hia, hh⟩ := parseScionAddrT_ok_inv h1
      obtain ⟨sp, hr⟩ := isdAsn_accept_only_spellings _ _ hia
      exact ⟨⟨x, y, rfl, sp, hh⟩, hr, hC.range4 _ _ hh⟩
    · cases hp
    · split at hp
      · next ia v h1 =>
        cases hp
        obtain ⟨x, y, rfl, hia, hh⟩ := parseScionAddrT_ok_inv h1
        obtain ⟨sp, hr⟩ := isdAsn_accept_only_spellings _ _ hia
        exact ⟨⟨x, y, rfl, sp, hh⟩, hr, hC.range6 _ _ hh⟩
      · cases hp
      · cases hp

/-- `ScionIpAddr` (IPv4 / IPv6 hosts only) -/
theorem scionIpAddr_parse_show (C : HostCodec) (hC : C.Lawful) (a : ScionAddr) (hv : a.Valid)
    (hip : ∀ v, a.host ≠ .svc v) : parseScionIpAddr C (showScionAddr C a) = .ok a := by
  obtain ⟨ia, h⟩ := a
  obtain ⟨hia, hh⟩ := hv
  simp only at hia hh hip
  unfold parseScionIpAddr showScionAddr
  simp only [parseScionAddrT_shown _ ia hia]
  cases h with
  | svc v => exact absurd rfl (hip v)
  | v4 a => simp [showHost, hC.rt4 a hh]
  | v6 a => simp [showHost, parse4_show6 hC hh, hC.rt6 a hh]

theorem scionIpAddr_total (C : HostCodec) (s : Str) : parseScionIpAddr C s ≠ .panic := by
  unfold parseScionIpAddr
  have h2 := parseScionAddrT_total C.parse4 s
  have h3 := parseScionAddrT_total C.parse6 s
  split
  · simp
  · next h => exact absurd h h2
  · split
    · simp
    · next h => exact absurd h h3
    · simp

theorem scionIpAddr_accept_only_spellings (C : HostCodec) (hC : C.Lawful) (s : Str) (a : ScionAddr)
    (hp : parseScionIpAddr C s = .ok a) : AddrSp C a s ∧ a.Valid ∧ ∀ v, a.host ≠ .svc v := by
  unfold parseScionIpAddr at hp
  split at hp
  · next ia v h1 =>
    cases hp
    obtain ⟨x, y, rfl, hia, hh⟩ := parseScionAddrT_ok_inv h1
    obtain ⟨sp, hr⟩ := isdAsn_accept_only_spellings _ _ hia
    exact ⟨⟨x, y, rfl, sp, hh⟩, ⟨hr, hC.range4 _ _ hh⟩, by simp⟩
  · cases hp
  · split at hp
    · next ia v h1 =>
      cases hp
      obtain ⟨x, y, rfl, hia, hh⟩ := parseScionAddrT_ok_inv h1
      obtain ⟨sp, hr⟩ := isdAsn_accept_only_spellings _ _ hia
      exact ⟨⟨x, y, rfl, sp, hh⟩, ⟨hr, hC.range6 _ _ hh⟩, by simp⟩
    · cases hp
    · cases hp

/-! ## SCION socket address `[ia,host]:port` -/

def SocketAddr.Valid (a : SocketAddr) : Prop := a.ia < 2 ^ IA_BITS ∧ a.host.Valid ∧ a.port < 2 ^ PORT_BITS

/-- spellings of a SCION socket address: `"[" scion-address "]:" port` – the brackets are mandatory and
    nothing precedes `[` or follows the port -/
def SockSp (C : HostCodec) (a : SocketAddr) (s : Str) : Prop :=
  ∃ sa sp, s = SOCK_OPEN :: (sa ++ SOCK_CLOSE :: PORT_SEP :: sp) ∧ AddrSp C ⟨a.ia, a.host⟩ sa ∧ NumSp 10 a.port sp

theorem parseSocketT_total {α : Type} (pa : Str → Res (Nat × α)) (hpa : ∀ s, pa s ≠ .panic) (s : Str) :
    parseSocketT pa s ≠ .panic := by
  unfold parseSocketT
  split
  · simp
  · split
    · simp
    · split
      · simp
      · next inner _ =>
        split
        · split <;> simp
        · simp
        · next h => exact absurd h (hpa inner)

theorem parseSocketT_shown {α : Type} (pa : Str → Res (Nat × α)) (inner : Str) (port : Nat) (hp : port < 2 ^ PORT_BITS) :
    parseSocketT pa ([SOCK_OPEN] ++ inner ++ [SOCK_CLOSE] ++ [PORT_SEP] ++ showNat 10 port) =
      match pa inner with
      | .ok a => .ok (a, port)
      | .err => .err
      | .panic => .panic := by
  unfold parseSocketT
  have hps : PORT_SEP ∉ showNat 10 port := fun hm => by
    have := showNat_chars (by omega) port _ hm; revert this; decide
  have : [SOCK_OPEN] ++ inner ++ [SOCK_CLOSE] ++ [PORT_SEP] ++ showNat 10 port =
      ([SOCK_OPEN] ++ inner ++ [SOCK_CLOSE]) ++ PORT_SEP :: showNat 10 port := by simp
  rw [this, rsplitOnce_append hps]
  simp only
  have h1 : stripPrefix [SOCK_OPEN] ([SOCK_OPEN] ++ inner ++ [SOCK_CLOSE]) = some (inner ++ [SOCK_CLOSE]) := by
    rw [stripPrefix_some]; simp
  have h2 : stripSuffix [SOCK_CLOSE] (inner ++ [SOCK_CLOSE]) = some inner := by rw [stripSuffix_some]
  rw [h1]; simp only; rw [h2]; simp only
  rw [parseUInt_showNat (Or.inl rfl) hp]
  cases pa inner <;> rfl

theorem parseSocketT_ok_inv {α : Type} {pa : Str → Res (Nat × α)} {s : Str} {a : Nat × α} {p : Nat}
    (h : parseSocketT pa s = .ok (a, p)) :
    ∃ inner ps, s = SOCK_OPEN :: (inner ++ SOCK_CLOSE :: PORT_SEP :: ps) ∧ pa inner = .ok a ∧
      parseUInt 10 PORT_BITS ps = some p := by
  unfold parseSocketT at h
  split at h
  · cases h
  · next br ps hr =>
    split at h
    · cases h
    · next r hpre =>
      split at h
      · cases h
      · next inner hsuf =>
        split at h
        · next a' ha =>
          split at h
          · next p' hport =>
            cases h
            obtain ⟨h1, _⟩ := rsplitOnce_some hr
            rw [stripPrefix_some] at hpre
            rw [stripSuffix_some] at hsuf
            exact ⟨inner, ps, by rw [h1, hpre, hsuf]; simp, ha, hport⟩
          · cases h
        · cases h
        · cases h

theorem socketAddr_parse_show (C : HostCodec) (hC : C.Lawful) (a : SocketAddr) (hv : a.Valid) :
    parseSocketAddr C (showSocketAddr C a) = .ok a := by
  obtain ⟨ia, h, port⟩ := a
  obtain ⟨hia, hh, hp⟩ := hv
  simp only at hia hh hp
  unfold parseSocketAddr showSocketAddr
  have : [SOCK_OPEN] ++ showIsdAsn ia ++ [ADDR_SEP] ++ showHost C h ++ [SOCK_CLOSE] ++ [PORT_SEP] ++ showNat 10 port =
      [SOCK_OPEN] ++ (showIsdAsn ia ++ [ADDR_SEP] ++ showHost C h) ++ [SOCK_CLOSE] ++ [PORT_SEP] ++ showNat 10 port := by simp
  simp only [this, parseSocketT_shown _ _ port hp, parseScionAddrT_shown _ ia hia]
  cases h with
  | svc v => simp [showHost, svc_parse_show v hh]
  | v4 a =>
    have h1 : parseSvc (C.show4 a) = none :=
      parseSvc_none_of_ip (fun c hc => alpha4_sub c (show4_alpha hC hh c hc))
    simp [showHost, h1, hC.rt4 a hh]
  | v6 a =>
    have h1 : parseSvc (C.show6 a) = none := parseSvc_none_of_ip (show6_alpha hC hh)
    simp [showHost, h1, parse4_show6 hC hh, hC.rt6 a hh]

theorem socketAddr_total (C : HostCodec) (s : Str) : parseSocketAddr C s ≠ .panic := by
  unfold parseSocketAddr
  have h1 := parseSocketT_total _ (parseScionAddrT_total parseSvc) s
  have h2 := parseSocketT_total _ (parseScionAddrT_total C.parse4) s
  have h3 := parseSocketT_total _ (parseScionAddrT_total C.parse6) s
  split
  · simp
  · next h => exact absurd h h1
  · split
    · simp
    · next h => exact absurd h h2
    · split
      · simp
      · next h => exact absurd h h3
      · simp

theorem sockSp_of {C : HostCodec} {α : Type} {ph : Str → Option α} {f : α → Host} {s : Str} {ia : Nat} {x : α} {p : Nat}
    (h : parseSocketT (parseScionAddrT ph) s = .ok ((ia, x), p))
    (hsp : ∀ b, ph b = some x → HostSp C (f x) b ∧ (f x).Valid) :
    SockSp C ⟨ia, f x, p⟩ s ∧ SocketAddr.Valid ⟨ia, f x, p⟩ := by
  obtain ⟨inner, ps, rfl, hin, hport⟩ := parseSocketT_ok_inv h
  obtain ⟨a, b, rfl, hia, hh⟩ := parseScionAddrT_ok_inv hin
  obtain ⟨sp, hr⟩ := isdAsn_accept_only_spellings _ _ hia
  obtain ⟨psp, plt⟩ := parseUInt_spelling (Or.inl rfl) hport
  obtain ⟨hs1, hs2⟩ := hsp b hh
  exact ⟨⟨_, ps, rfl, ⟨a, b, rfl, sp, hs1⟩, psp⟩, hr, hs2, plt⟩

theorem socketAddr_accept_only_spellings (C : HostCodec) (hC : C.Lawful) (s : Str) (a : SocketAddr)
    (hp : parseSocketAddr C s = .ok a) : SockSp C a s ∧ a.Valid := by
  unfold parseSocketAddr at hp
  split at hp
  · next ia v p h1 =>
    cases hp
    exact sockSp_of (f := Host.svc) h1 (fun b hb => svc_accept_only_spellings _ _ hb)
  · cases hp
  · split at hp
    · next ia v p h1 =>
      cases hp
      exact sockSp_of (f := Host.v4) h1 (fun b hb => ⟨hb, hC.range4 _ _ hb⟩)
    · cases hp
    · split at hp
      · next ia v p h1 =>
        cases hp
        exact sockSp_of (f := Host.v6) h1 (fun b hb => ⟨hb, hC.range6 _ _ hb⟩)
      · cases hp
      · cases hp

/-- `ScionSocketIpAddr` -/
theorem socketIpAddr_parse_show (C : HostCodec) (hC : C.Lawful) (a : SocketAddr) (hv : a.Valid)
    (hip : ∀ v, a.host ≠ .svc v) : parseSocketIpAddr C (showSocketAddr C a) = .ok a := by
  obtain ⟨ia, h, port⟩ := a
  obtain ⟨hia, hh, hp⟩ := hv
  simp only at hia hh hp hip
  unfold parseSocketIpAddr showSocketAddr
  have : [SOCK_OPEN] ++ showIsdAsn ia ++ [ADDR_SEP] ++ showHost C h ++ [SOCK_CLOSE] ++ [PORT_SEP] ++ showNat 10 port =
      [SOCK_OPEN] ++ (showIsdAsn ia ++ [ADDR_SEP] ++ showHost C h) ++ [SOCK_CLOSE] ++ [PORT_SEP] ++ showNat 10 port := by simp
  simp only [this, parseSocketT_shown _ _ port hp, parseScionAddrT_shown _ ia hia]
  cases h with
  | svc v => exact absurd rfl (hip v)
  | v4 a => simp [showHost, hC.rt4 a hh]
  | v6 a => simp [showHost, parse4_show6 hC hh, hC.rt6 a hh]

theorem socketIpAddr_total (C : HostCodec) (s : Str) : parseSocketIpAddr C s ≠ .panic := by
  unfold parseSocketIpAddr
  have h2 := parseSocketT_total _ (parseScionAddrT_total C.parse4) s
  have h3 := parseSocketT_total _ (parseScionAddrT_total C.parse6) s
  split
  · simp
  · next h => exact absurd h h2
  · split
    · simp
    · next h => exact absurd h h3
    · simp

theorem socketIpAddr_accept_only_spellings (C : HostCodec) (hC : C.Lawful) (s : Str) (a : SocketAddr)
    (hp : parseSocketIpAddr C s = .ok a) : SockSp C a s ∧ a.Valid := by
  unfold parseSocketIpAddr at hp
  split at hp
  · next ia v p h1 =>
    cases hp
    exact sockSp_of (f := Host.v4) h1 (fun b hb => ⟨hb, hC.range4 _ _ hb⟩)
  · cases hp
  · split at hp
    · next ia v p h1 =>
      cases hp
      exact sockSp_of (f := Host.v6) h1 (fun b hb => ⟨hb, hC.range6 _ _ hb⟩)
    · cases hp
    · cases hp

/-! ## the per-variant types `ScionAddrV4/V6/Svc`, `ScionSocketAddrV4/V6/Svc`

Their `from_str` is `parse_scion_addr::<T>` / `parse_socket_addr::<ScionAddrT>` for one host parser `ph`
(`Ipv4Addr`, `Ipv6Addr` or `ServiceAddr`); the theorems are generic in `ph`. -/

theorem scionAddrVariant_parse_show {α : Type} (ph : Str → Option α) (ia : Nat) (hia : ia < 2 ^ IA_BITS)
    (hostText : Str) (x : α) (hx : ph hostText = some x) :
    parseScionAddrT ph (showIsdAsn ia ++ [ADDR_SEP] ++ hostText) = .ok (ia, x) := by
  rw [parseScionAddrT_shown ph ia hia, hx]

theorem scionAddrVariant_total {α : Type} (ph : Str → Option α) (s : Str) : parseScionAddrT ph s ≠ .panic :=
  parseScionAddrT_total ph s

theorem scionAddrVariant_accept_only_spellings {α : Type} (ph : Str → Option α) (s : Str) (ia : Nat) (x : α)
    (h : parseScionAddrT ph s = .ok (ia, x)) :
    ∃ sia sh, s = sia ++ ADDR_SEP :: sh ∧ IsdAsnSp ia sia ∧ ph sh = some x ∧ ia < 2 ^ IA_BITS := by
  obtain ⟨a, b, rfl, hia, hh⟩ := parseScionAddrT_ok_inv h
  obtain ⟨sp, hr⟩ := isdAsn_accept_only_spellings _ _ hia
  exact ⟨a, b, rfl, sp, hh, hr⟩

theorem socketAddrVariant_parse_show {α : Type} (ph : Str → Option α) (ia : Nat) (hia : ia < 2 ^ IA_BITS)
    (hostText : Str) (x : α) (hx : ph hostText = some x) (port : Nat) (hp : port < 2 ^ PORT_BITS) :
    parseSocketT (parseScionAddrT ph)
      ([SOCK_OPEN] ++ (showIsdAsn ia ++ [ADDR_SEP] ++ hostText) ++ [SOCK_CLOSE] ++ [PORT_SEP] ++ showNat 10 port) =
      .ok ((ia, x), port) := by
  rw [parseSocketT_shown _ _ port hp, parseScionAddrT_shown ph ia hia, hx]

theorem socketAddrVariant_total {α : Type} (ph : Str → Option α) (s : Str) :
    parseSocketT (parseScionAddrT ph) s ≠ .panic :=
  parseSocketT_total _ (parseScionAddrT_total ph) s

theorem socketAddrVariant_accept_only_spellings {α : Type} (ph : Str → Option α) (s : Str) (ia : Nat) (x : α) (p : Nat)
    (h : parseSocketT (parseScionAddrT ph) s = .ok ((ia, x), p)) :
    ∃ sia sh sp, s = SOCK_OPEN :: ((sia ++ ADDR_SEP :: sh) ++ SOCK_CLOSE :: PORT_SEP :: sp) ∧
      IsdAsnSp ia sia ∧ ph sh = some x ∧ NumSp 10 p sp ∧ ia < 2 ^ IA_BITS ∧ p < 2 ^ PORT_BITS := by
  obtain ⟨inner, ps, rfl, hin, hport⟩ := parseSocketT_ok_inv h
  obtain ⟨a, b, rfl, hia, hh⟩ := parseScionAddrT_ok_inv hin
  obtain ⟨sp, hr⟩ := isdAsn_accept_only_spellings _ _ hia
  obtain ⟨psp, plt⟩ := parseUInt_spelling (Or.inl rfl) hport
  exact ⟨a, b, ps, rfl, sp, hh, psp, hr, plt⟩

example : parseSocketT (parseScionAddrT stdCodec.parse6) "[1-ff00:0:110,::1]:80".toList = .ok ((0x1ff0000000110, 1), 80) := by decide

/-! ## DNS TXT address records -/

theorem parseTxtLoop_total (C : HostCodec) : ∀ (fuel : Nat) (remaining : Str), remaining.length < fuel →
    parseTxtLoop C fuel remaining ≠ .panic := by
  intro fuel
  induction fuel with
  | zero => intro r h; omega
  | succ fuel ih =>
    intro remaining hlen
    unfold parseTxtLoop
    split
    · simp
    · next hopen =>
      have hopen' : startsWith TXT_OPEN remaining = true := by simpa using hopen
      obtain ⟨t, rfl⟩ := startsWith_iff.mp hopen'
      split
      · simp
      · next closeIdx hfind =>
        obtain ⟨hdec, _⟩ := find_some hfind
        split
        · next hlt =>
          exfalso
          have : closeIdx = 0 := by omega
          subst this
          simp at hdec
          exact txt_consts.1 hdec
        · simp only
          split
          · simp
          · split
            · next hp => exact absurd hp (isdAsn_total _)
            · simp
            · split
              · simp
              · split
                · simp
                · split
                  · simp
                  · split
                    · simp
                    · next hne =>
                      have hl : (trim ((trim ((TXT_OPEN :: t).drop (closeIdx + 1))).drop 1)).length < fuel := by
                        have h1 := trim_length_le ((trim ((TXT_OPEN :: t).drop (closeIdx + 1))).drop 1)
                        have h2 := trim_length_le ((TXT_OPEN :: t).drop (closeIdx + 1))
                        simp only [List.length_drop, List.length_cons] at h1 h2 hlen
                        omega
                      have := ih _ hl
                      split
                      · simp
                      · simp
                      · next hp => exact absurd hp this

/-- **TXT parser never panics**: neither a slice nor the ISD-AS `expect` nor the loop bound is reachable -/
theorem txt_total (C : HostCodec) (s : Str) : parseTxt C s ≠ .panic := by
  unfold parseTxt
  simp only
  split
  · simp
  · exact parseTxtLoop_total C _ _ (by omega)

/-- `"[" ws isd-as ws "," ws ip-address ws "]"` -/
def TxtEntrySp (C : HostCodec) (a : ScionAddr) (s : Str) : Prop :=
  ∃ w1 sia w2 w3 sh w4, Ws w1 ∧ Ws w2 ∧ Ws w3 ∧ Ws w4 ∧
    s = TXT_OPEN :: (w1 ++ sia ++ w2 ++ TXT_ENTRY_SEP :: (w3 ++ sh ++ w4 ++ [TXT_CLOSE])) ∧
    IsdAsnSp a.ia sia ∧ HostSp C a.host sh

/-- `address *( ws "," ws address )` – in particular no dangling separator -/
inductive TxtListSp (C : HostCodec) : List ScionAddr → Str → Prop
  | one {a : ScionAddr} {s : Str} : TxtEntrySp C a s → TxtListSp C [a] s
  | cons {a : ScionAddr} {s : Str} {l : List ScionAddr} {rest w1 w2 : Str} :
      TxtEntrySp C a s → Ws w1 → Ws w2 → TxtListSp C l rest →
      TxtListSp C (a :: l) (s ++ w1 ++ TXT_LIST_SEP :: (w2 ++ rest))

/-- spellings of a TXT payload: the documented record grammar, white space allowed around every token -/
def TxtSp (C : HostCodec) (l : List ScionAddr) (s : Str) : Prop :=
  ∃ w1 body w2, Ws w1 ∧ Ws w2 ∧ s = w1 ++ body ++ w2 ∧ TxtListSp C l body

def ScionAddr.IsIp (a : ScionAddr) : Prop := ∀ v, a.host ≠ .svc v

theorem parseIp_sp {C : HostCodec} (hC : C.Lawful) {s : Str} {h : Host} (hp : parseIp C s = some h) :
    HostSp C h s ∧ h.Valid ∧ ∀ v, h ≠ .svc v := by
  unfold parseIp at hp
  split at hp
  · next a h4 => cases hp; exact ⟨h4, hC.range4 _ _ h4, by simp⟩
  · split at hp
    · next a h6 => cases hp; exact ⟨h6, hC.range6 _ _ h6, by simp⟩
    · cases hp

theorem txt_entry_sp {C : HostCodec} (hC : C.Lawful) {t : Str} {closeIdx : Nat} {ias hs : Str} {ia : Nat} {h : Host}
    (hfind : find TXT_CLOSE (TXT_OPEN :: t) = some closeIdx) (hge : ¬ closeIdx < 1)
    (hsplit : splitOnce TXT_ENTRY_SEP (trim (((TXT_OPEN :: t).take closeIdx).drop 1)) = some (ias, hs))
    (hia : parseIsdAsn (trim ias) = .ok ia) (hh : parseIp C (trim hs) = some h) :
    ∃ e, TxtEntrySp C ⟨ia, h⟩ e ∧ TXT_OPEN :: t = e ++ (TXT_OPEN :: t).drop (closeIdx + 1) ∧
      ScionAddr.Valid ⟨ia, h⟩ ∧ ScionAddr.IsIp ⟨ia, h⟩ := by
  obtain ⟨hdec, _⟩ := find_some hfind
  obtain ⟨wa, wb, hwa, hwb, einner⟩ := trim_decomp (((TXT_OPEN :: t).take closeIdx).drop 1)
  obtain ⟨eentry, _⟩ := splitOnce_some hsplit
  obtain ⟨u1, u2, hu1, hu2, eias⟩ := trim_decomp ias
  obtain ⟨u3, u4, hu3, hu4, ehs⟩ := trim_decomp hs
  obtain ⟨spia, hiar⟩ := isdAsn_accept_only_spellings _ _ hia
  obtain ⟨sph, hval, hip⟩ := parseIp_sp hC hh
  refine ⟨(TXT_OPEN :: t).take closeIdx ++ [TXT_CLOSE], ?_, ?_, ⟨hiar, hval⟩, hip⟩
  · refine ⟨wa ++ u1, trim ias, u2, u3, trim hs, u4 ++ wb, hwa.append hu1, hu2, hu3, hu4.append hwb, ?_, spia, sph⟩
    rw [take_cons_drop_one hge, einner, eentry]
    conv => lhs; rw [eias, ehs]
    simp
  · conv => lhs; rw [hdec]
    simp

theorem parseTxtLoop_sp {C : HostCodec} (hC : C.Lawful) : ∀ (fuel : Nat) (remaining : Str) (l : List ScionAddr),
    parseTxtLoop C fuel remaining = .ok l →
    ∃ body w, Ws w ∧ remaining = body ++ w ∧ TxtListSp C l body ∧ l ≠ [] ∧ ∀ a ∈ l, a.Valid ∧ a.IsIp := by
  intro fuel
  induction fuel with
  | zero => intro r l h; simp [parseTxtLoop] at h
  | succ fuel ih =>
    intro remaining l hp
    unfold parseTxtLoop at hp
    split at hp
    · cases hp
    · next hopen =>
      have hopen' : startsWith TXT_OPEN remaining = true := by simpa using hopen
      obtain ⟨t, rfl⟩ := startsWith_iff.mp hopen'
      split at hp
      · cases hp
      · next closeIdx hfind =>
        split at hp
        · cases hp
        · next hge =>
          simp only at hp
          split at hp
          · cases hp
          · next ias hs hsplit =>
            split at hp
            · cases hp
            · cases hp
            · next ia hia =>
              split at hp
              · cases hp
              · next h hh =>
                obtain ⟨e, hesp, hrem, hval, hip⟩ := txt_entry_sp hC hfind hge hsplit hia hh
                obtain ⟨wc, wd, hwc, hwd, erest⟩ := trim_decomp ((TXT_OPEN :: t).drop (closeIdx + 1))
                split at hp
                · next hempty =>
                  cases hp
                  have hnil : trim ((TXT_OPEN :: t).drop (closeIdx + 1)) = [] := by simpa using hempty
                  refine ⟨e, wc ++ wd, hwc.append hwd, ?_, .one hesp, by simp, ?_⟩
                  · conv => lhs; rw [hrem, erest, hnil]
                    simp
                  · intro a ha; simp at ha; subst ha; exact ⟨hval, hip⟩
                · split at hp
                  · cases hp
                  · next hsep =>
                    have hsep' : startsWith TXT_LIST_SEP (trim ((TXT_OPEN :: t).drop (closeIdx + 1))) = true := by simpa using hsep
                    obtain ⟨r1, er1⟩ := startsWith_iff.mp hsep'
                    split at hp
                    · cases hp
                    · split at hp
                      · next more hmore =>
                        cases hp
                        obtain ⟨body', w', hw', erem', hsp', hne', hall'⟩ := ih _ _ hmore
                        obtain ⟨we, wf, hwe, hwf, er1'⟩ := trim_decomp ((trim ((TXT_OPEN :: t).drop (closeIdx + 1))).drop 1)
                        refine ⟨e ++ wc ++ TXT_LIST_SEP :: (we ++ body'), w' ++ wf ++ wd, (hw'.append hwf).append hwd, ?_,
                          .cons hesp hwc hwe hsp', by simp, ?_⟩
                        · conv => lhs; rw [hrem, erest, er1]
                          have : r1 = we ++ (body' ++ w') ++ wf := by
                            have h1 : (trim ((TXT_OPEN :: t).drop (closeIdx + 1))).drop 1 = r1 := by rw [er1]; rfl
                            rw [← h1]; conv => lhs; rw [er1']
                            rw [erem']
                          rw [this]
                          simp
                        · intro a ha
                          rcases List.mem_cons.mp ha with rfl | ha
                          · exact ⟨hval, hip⟩
                          · exact hall' a ha
                      · cases hp
                      · cases hp

/-- **accepted TXT payloads are exactly the record grammar** (up to white space): every character is
    accounted for, in particular no dangling separator and nothing before `[` or after `]` -/
theorem txt_accept_only_spellings (C : HostCodec) (hC : C.Lawful) (s : Str) (l : List ScionAddr)
    (hp : parseTxt C s = .ok l) : TxtSp C l s ∧ l ≠ [] ∧ ∀ a ∈ l, a.Valid ∧ a.IsIp := by
  unfold parseTxt at hp
  simp only at hp
  split at hp
  · cases hp
  · obtain ⟨body, w, hw, erem, hsp, hne, hall⟩ := parseTxtLoop_sp hC _ _ _ hp
    obtain ⟨w1, w2, hw1, hw2, es⟩ := trim_decomp s
    refine ⟨⟨w1, body, w ++ w2, hw1, hw.append hw2, ?_, hsp⟩, hne, hall⟩
    conv => lhs; rw [es, erem]
    simp

/-! ### the record grammar parses back -/

def txtAlphabet : Str := lowerDigits ++ ipv6Alphabet ++ [TXT_OPEN, TXT_CLOSE, TXT_ENTRY_SEP, TXT_LIST_SEP, IA_SEP, ASN_SEP]

theorem txtAlphabet_noWs : ∀ c ∈ txtAlphabet, isWhitespace c = false := by decide

theorem showIpHost_chars {C : HostCodec} (hC : C.Lawful) {h : Host} (hv : h.Valid) (hip : ∀ v, h ≠ .svc v) :
    ∀ c ∈ showHost C h, c ∈ ipv6Alphabet := by
  cases h with
  | v4 a => exact fun c hc => alpha4_sub c (show4_alpha hC hv c hc)
  | v6 a => exact show6_alpha hC hv
  | svc v => exact absurd rfl (hip v)

theorem parseIp_showHost {C : HostCodec} (hC : C.Lawful) {h : Host} (hv : h.Valid) (hip : ∀ v, h ≠ .svc v) :
    parseIp C (showHost C h) = some h := by
  cases h with
  | v4 a => simp [parseIp, showHost, hC.rt4 a hv]
  | v6 a => simp [parseIp, showHost, parse4_show6 hC hv, hC.rt6 a hv]
  | svc v => exact absurd rfl (hip v)

/-- characters of `isd-as "," ip` -/
theorem entryBody_chars {C : HostCodec} (hC : C.Lawful) (a : ScionAddr) (ha : a.Valid) (hip : a.IsIp) :
    ∀ c ∈ showIsdAsn a.ia ++ TXT_ENTRY_SEP :: showHost C a.host,
      c ∈ lowerDigits ∨ c = IA_SEP ∨ c = ASN_SEP ∨ c = TXT_ENTRY_SEP ∨ c ∈ ipv6Alphabet := by
  intro c hc
  simp only [List.mem_append, List.mem_cons] at hc
  rcases hc with hc | hc | hc
  · rcases showIsdAsn_chars _ c hc with h | h | h
    · exact Or.inl h
    · exact Or.inr (Or.inl h)
    · exact Or.inr (Or.inr (Or.inl h))
  · exact Or.inr (Or.inr (Or.inr (Or.inl hc)))
  · exact Or.inr (Or.inr (Or.inr (Or.inr (showIpHost_chars hC ha.2 hip c hc))))

theorem mem_txtAlphabet_of {c : Char}
    (h : c ∈ lowerDigits ∨ c = IA_SEP ∨ c = ASN_SEP ∨ c = TXT_ENTRY_SEP ∨ c ∈ ipv6Alphabet) : c ∈ txtAlphabet := by
  unfold txtAlphabet
  simp only [List.mem_append, List.mem_cons]
  rcases h with h | h | h | h | h
  · exact Or.inl (Or.inl h)
  · subst h; simp
  · subst h; simp
  · subst h; simp
  · exact Or.inl (Or.inr h)

theorem close_not_in_body : TXT_CLOSE ∉ lowerDigits ∧ TXT_CLOSE ≠ IA_SEP ∧ TXT_CLOSE ≠ ASN_SEP ∧ TXT_CLOSE ≠ TXT_ENTRY_SEP ∧
    TXT_CLOSE ∉ ipv6Alphabet ∧ TXT_CLOSE ≠ TXT_OPEN := by decide

theorem showTxt_chars {C : HostCodec} (hC : C.Lawful) : ∀ (l : List ScionAddr), (∀ a ∈ l, a.Valid ∧ a.IsIp) →
    ∀ c ∈ showTxt C l, c ∈ txtAlphabet
  | [], _ => by simp [showTxt]
  | [a], h => by
    intro c hc
    simp only [showTxt, showTxtEntry, List.mem_append, List.mem_singleton] at hc
    have hb := entryBody_chars hC a (h a (by simp)).1 (h a (by simp)).2
    rcases hc with (((hc | hc) | hc) | hc) | hc
    · subst hc; simp [txtAlphabet]
    · exact mem_txtAlphabet_of (hb c (by simp [hc]))
    · subst hc; simp [txtAlphabet]
    · exact mem_txtAlphabet_of (hb c (by simp [hc]))
    · subst hc; simp [txtAlphabet]
  | a :: b :: rest, h => by
    intro c hc
    simp only [showTxt, showTxtEntry, List.mem_append, List.mem_singleton] at hc
    have hb := entryBody_chars hC a (h a (by simp)).1 (h a (by simp)).2
    rcases hc with ((((((hc | hc) | hc) | hc) | hc) | hc)) | hc
    · subst hc; simp [txtAlphabet]
    · exact mem_txtAlphabet_of (hb c (by simp [hc]))
    · subst hc; simp [txtAlphabet]
    · exact mem_txtAlphabet_of (hb c (by simp [hc]))
    · subst hc; simp [txtAlphabet]
    · subst hc; simp [txtAlphabet]
    · exact showTxt_chars hC (b :: rest) (fun x hx => h x (by simp at hx ⊢; exact Or.inr hx)) c hc

theorem noWs_of_alphabet {s : Str} (h : ∀ c ∈ s, c ∈ txtAlphabet) : NoWs s := fun c hc => txtAlphabet_noWs c (h c hc)

/-- one iteration of the loop on `entry ++ tail` -/
theorem parseTxtLoop_step {C : HostCodec} (hC : C.Lawful) (a : ScionAddr) (ha : a.Valid) (hip : a.IsIp) (tail : Str) (fuel : Nat) :
    parseTxtLoop C (fuel + 1) (showTxtEntry C a ++ tail) =
      if (trim tail).isEmpty then .ok [a]
      else if !startsWith TXT_LIST_SEP (trim tail) then .err
      else if (trim ((trim tail).drop 1)).isEmpty then .err
      else match parseTxtLoop C fuel (trim ((trim tail).drop 1)) with
        | .ok more => .ok (a :: more)
        | .err => .err
        | .panic => .panic := by
  obtain ⟨ia, h⟩ := a
  have hb := entryBody_chars hC ⟨ia, h⟩ ha hip
  simp only at hb
  obtain ⟨c1, c2, c3, c4, c5, c6⟩ := close_not_in_body
  have hclose : TXT_CLOSE ∉ TXT_OPEN :: (showIsdAsn ia ++ TXT_ENTRY_SEP :: showHost C h) := by
    intro hm
    rcases List.mem_cons.mp hm with hm | hm
    · exact c6 hm
    · rcases hb _ hm with h | h | h | h | h
      · exact c1 h
      · exact c2 h
      · exact c3 h
      · exact c4 h
      · exact c5 h
  have hshape : showTxtEntry C ⟨ia, h⟩ ++ tail =
      (TXT_OPEN :: (showIsdAsn ia ++ TXT_ENTRY_SEP :: showHost C h)) ++ TXT_CLOSE :: tail := by
    simp [showTxtEntry]
  have hnows : NoWs (showIsdAsn ia ++ TXT_ENTRY_SEP :: showHost C h) :=
    noWs_of_alphabet (fun c hc => mem_txtAlphabet_of (hb c hc))
  have hsepia : TXT_ENTRY_SEP ∉ showIsdAsn ia := by rw [txt_consts.2.1]; exact addr_sep_not_in_ia ia
  have hnia : NoWs (showIsdAsn ia) := fun c hc => hnows c (by simp [hc])
  have hnh : NoWs (showHost C h) := fun c hc => hnows c (by simp [hc])
  rw [hshape]
  conv => lhs; unfold parseTxtLoop
  have hsw : startsWith TXT_OPEN ((TXT_OPEN :: (showIsdAsn ia ++ TXT_ENTRY_SEP :: showHost C h)) ++ TXT_CLOSE :: tail) = true := by
    simp [startsWith]
  rw [hsw]
  simp only [Bool.not_true, Bool.false_eq_true, if_false]
  rw [find_append hclose]
  simp only
  rw [if_neg (by simp)]
  have htake : (((TXT_OPEN :: (showIsdAsn ia ++ TXT_ENTRY_SEP :: showHost C h)) ++ TXT_CLOSE :: tail).take
      (TXT_OPEN :: (showIsdAsn ia ++ TXT_ENTRY_SEP :: showHost C h)).length).drop 1 =
      showIsdAsn ia ++ TXT_ENTRY_SEP :: showHost C h := by
    rw [List.take_left']
    · rfl
    · rfl
  have hdrop : ((TXT_OPEN :: (showIsdAsn ia ++ TXT_ENTRY_SEP :: showHost C h)) ++ TXT_CLOSE :: tail).drop
      ((TXT_OPEN :: (showIsdAsn ia ++ TXT_ENTRY_SEP :: showHost C h)).length + 1) = tail := by
    have : (TXT_OPEN :: (showIsdAsn ia ++ TXT_ENTRY_SEP :: showHost C h)) ++ TXT_CLOSE :: tail =
        ((TXT_OPEN :: (showIsdAsn ia ++ TXT_ENTRY_SEP :: showHost C h)) ++ [TXT_CLOSE]) ++ tail := by simp
    rw [this]
    exact List.drop_left' (by simp; omega)
  rw [htake, hdrop, trim_noWs hnows, splitOnce_append hsepia]
  simp only
  rw [trim_noWs hnia, trim_noWs hnh, isdAsn_parse_show ia ha.1, parseIp_showHost hC ha.2 hip]
  simp only
  split
  · rfl
  · split
    · rfl
    · split
      · rfl
      · cases parseTxtLoop C fuel (trim (List.drop 1 (trim tail))) <;> rfl

theorem showTxt_ne_nil (C : HostCodec) : ∀ (l : List ScionAddr), l ≠ [] → showTxt C l ≠ []
  | [], h => absurd rfl h
  | [a], _ => by simp [showTxt, showTxtEntry]
  | a :: b :: rest, _ => by simp [showTxt, showTxtEntry]

theorem parseTxtLoop_showTxt {C : HostCodec} (hC : C.Lawful) : ∀ (l : List ScionAddr), l ≠ [] →
    (∀ a ∈ l, a.Valid ∧ a.IsIp) → ∀ fuel, l.length ≤ fuel → parseTxtLoop C fuel (showTxt C l) = .ok l
  | [], h, _, _, _ => absurd rfl h
  | [a], _, hv, fuel, hf => by
    cases fuel with
    | zero => simp at hf
    | succ fuel =>
      have := parseTxtLoop_step hC a (hv a (by simp)).1 (hv a (by simp)).2 [] fuel
      simp only [List.append_nil] at this
      rw [showTxt, this]
      simp [trim, trimEnd, trimStart]
  | a :: b :: rest, _, hv, fuel, hf => by
    cases fuel with
    | zero => simp at hf
    | succ fuel =>
      have hv' : ∀ x ∈ b :: rest, x.Valid ∧ x.IsIp := fun x hx => hv x (List.mem_cons_of_mem _ hx)
      have hstep := parseTxtLoop_step hC a (hv a (by simp)).1 (hv a (by simp)).2 (TXT_LIST_SEP :: showTxt C (b :: rest)) fuel
      have hnw : NoWs (TXT_LIST_SEP :: showTxt C (b :: rest)) := by
        intro c hc
        rcases List.mem_cons.mp hc with rfl | hc
        · decide
        · exact txtAlphabet_noWs c (showTxt_chars hC _ hv' c hc)
      have hnw' : NoWs (showTxt C (b :: rest)) := fun c hc => hnw c (List.mem_cons_of_mem _ hc)
      have hrec := parseTxtLoop_showTxt hC (b :: rest) (by simp) hv' fuel (by simp at hf ⊢; omega)
      have hne := showTxt_ne_nil C (b :: rest) (by simp)
      have e : showTxt C (a :: b :: rest) = showTxtEntry C a ++ TXT_LIST_SEP :: showTxt C (b :: rest) := by
        simp [showTxt]
      rw [e, hstep, trim_noWs hnw]
      simp only [List.isEmpty_cons, Bool.false_eq_true, if_false, startsWith, beq_self_eq_true, Bool.not_true,
        List.drop_succ_cons, List.drop_zero]
      rw [trim_noWs hnw', hrec]
      cases hs : showTxt C (b :: rest) with
      | nil => exact absurd hs hne
      | cons x xs => simp

/-- **the documented record grammar parses back**: for every non-empty list of valid SCION IP addresses,
    `"[ia,host]" *( "," "[ia,host]" )` is parsed to exactly that list -/
theorem txt_parse_show (C : HostCodec) (hC : C.Lawful) (l : List ScionAddr) (hne : l ≠ [])
    (hv : ∀ a ∈ l, a.Valid ∧ a.IsIp) : parseTxt C (showTxt C l) = .ok l := by
  have hnw : NoWs (showTxt C l) := fun c hc => txtAlphabet_noWs c (showTxt_chars hC l hv c hc)
  unfold parseTxt
  simp only [trim_noWs hnw]
  cases hs : showTxt C l with
  | nil => exact absurd hs (showTxt_ne_nil C l hne)
  | cons x xs =>
    simp only [List.isEmpty_cons, Bool.false_eq_true, if_false]
    rw [← hs]
    apply parseTxtLoop_showTxt hC l hne hv
    -- the fuel (characters + 1) exceeds the number of entries
    have : ∀ (l : List ScionAddr), l.length ≤ (showTxt C l).length := by
      intro l
      induction l with
      | nil => simp
      | cons a t ih =>
        cases t with
        | nil => simp [showTxt, showTxtEntry]
        | cons b r =>
          have e : showTxt C (a :: b :: r) = showTxtEntry C a ++ TXT_LIST_SEP :: showTxt C (b :: r) := by simp [showTxt]
          rw [e]; simp at ih ⊢; omega
    have := this l
    omega


/-! ## the spelling predicates are exact: every spelling is accepted (so `…Sp` *is* the accepted language) -/

theorem digitVal_lower {r : Nat} (hr : r = 10 ∨ r = 16) (c : Char) : digitVal r (lowerHexChar c) = digitVal r c := by
  unfold lowerHexChar
  repeat' split
  all_goals (first | rfl | (subst_vars; rcases hr with rfl | rfl <;> decide))

theorem parseDigits_map_lower {r : Nat} (hr : r = 10 ∨ r = 16) : ∀ (s : Str) (acc : Nat),
    parseDigits r (s.map lowerHexChar) acc = parseDigits r s acc
  | [], _ => rfl
  | c :: cs, acc => by
    simp only [List.map_cons, parseDigits, digitVal_lower hr c]
    cases digitVal r c with
    | none => rfl
    | some d => exact parseDigits_map_lower hr cs _

theorem lower_plus_not_digit : lowerHexChar '+' ∉ lowerDigits := by decide

/-- **every spelling of a number below `2^bits` is accepted** by `from_str_radix` -/
theorem numSp_accepted {r bits n : Nat} {s : Str} (hr : r = 10 ∨ r = 16) (h : NumSp r n s) (hn : n < 2 ^ bits) :
    parseUInt r bits s = some n := by
  have h2 : 2 ≤ r := by rcases hr with rfl | rfl <;> omega
  obtain ⟨plus, k, body, rfl, hb⟩ := h
  have hbody : parseDigits r body 0 = some n := by
    rw [← parseDigits_map_lower hr, hb, parseDigits_showNat hr]
  have hbne : body ≠ [] := by
    intro h0; subst h0; simp at hb; exact showNat_ne_nil h2 n (by simpa using hb.symm)
  have hall : parseDigits r (List.replicate k '0' ++ body) 0 = some n := by rw [parseDigits_zeros hr, hbody]
  have hne : List.replicate k '0' ++ body ≠ [] := by simp [hbne]
  -- the digits do not start with '+'
  have hhead : ∀ c t, List.replicate k '0' ++ body = c :: t → c ≠ '+' := by
    intro c t hct hc
    subst hc
    cases k with
    | zero =>
      simp at hct
      have : lowerHexChar '+' ∈ showNat r n := by rw [← hb, hct]; simp
      exact lower_plus_not_digit (showNat_chars h2 n _ this)
    | succ k => simp [List.replicate_succ] at hct
  unfold parseUInt
  have hstrip : stripPlus ((if plus = true then ['+'] else []) ++ List.replicate k '0' ++ body) = List.replicate k '0' ++ body := by
    cases plus with
    | true => simp [stripPlus]
    | false =>
      simp only [Bool.false_eq_true, if_false, List.nil_append]
      cases hz : List.replicate k '0' ++ body with
      | nil => exact absurd hz hne
      | cons c t => simp [stripPlus, hhead c t hz]
  rw [hstrip]
  cases hz : List.replicate k '0' ++ body with
  | nil => exact absurd hz hne
  | cons c t =>
    simp only
    rw [← hz, hall]
    simp [hn]

/-- `Isd::from_str` accepts exactly the decimal spellings of the numbers below `2^16` -/
theorem isd_accepts_iff (s : Str) (v : Nat) : parseIsd s = some v ↔ IsdSp v s ∧ v < 2 ^ ISD_BITS :=
  ⟨isd_accept_only_spellings s v, fun ⟨h, hv⟩ => numSp_accepted (Or.inl rfl) h hv⟩

theorem sep_not_in_numSp {r n : Nat} {s : Str} (hr : 2 ≤ r) (h : NumSp r n s) (c : Char)
    (h1 : c ≠ '+') (h2 : c ∉ lowerDigits) (h3 : c ∉ upperDigits) : c ∉ s := by
  intro hm
  rcases numSp_chars hr h c hm with h | h | h
  · exact h1 h
  · exact h2 h
  · exact h3 h

/-- `Asn::from_str` accepts exactly the spellings `AsnSp` -/
theorem asn_accepts_iff (s : Str) (v : Nat) : parseAsn s = some v ↔ AsnSp v s ∧ v ≤ ASN_MAX := by
  refine ⟨asn_accept_only_spellings s v, ?_⟩
  rintro ⟨h | ⟨a, b, c, sa, sb, sc, ha, hb, hc, rfl, rfl, spa, spb, spc⟩, hv⟩
  · obtain ⟨hle, hsp⟩ := h
    unfold parseAsn
    rw [numSp_accepted (Or.inl rfl) hsp (by simp [ASN_PARSE_DECIMAL_MAX, ASN_DECIMAL_PARSE_BITS] at hle ⊢; omega)]
    simp [hle]
  · unfold parseAsn
    have hsep : ASN_SEP ∈ sa ++ ASN_SEP :: (sb ++ ASN_SEP :: sc) := by simp
    rw [parseUInt_none_of_mem (Or.inl rfl) ASN_SEP hsep sep_not_digit.1 sep_not_digit.2.1 sep_not_digit.2.2]
    have hna := sep_not_in_numSp (by omega) spa ASN_SEP sep_not_digit.1 sep_not_digit.2.1 sep_not_digit.2.2
    have hnb := sep_not_in_numSp (by omega) spb ASN_SEP sep_not_digit.1 sep_not_digit.2.1 sep_not_digit.2.2
    have h3 : ASN_NUMBER_PARTS = 3 := rfl
    simp only [h3, splitN_three, splitOnce_append hna, splitOnce_append hnb]
    simp only [foldAsnParts, ASN_PART_RADIX, ASN_PART_PARSE_BITS, ASN_BITS_PER_PART,
      numSp_accepted (Or.inr rfl) spa ha, numSp_accepted (Or.inr rfl) spb hb, numSp_accepted (Or.inr rfl) spc hc]
    simp [ASN_MAX] at hv ⊢
    omega

theorem ia_sep_not_digit : IA_SEP ≠ '+' ∧ IA_SEP ∉ lowerDigits ∧ IA_SEP ∉ upperDigits ∧ IA_SEP ≠ ASN_SEP := by decide

theorem ia_sep_not_in_asnSp {v : Nat} {s : Str} (h : AsnSp v s) : IA_SEP ∉ s := by
  obtain ⟨h1, h2, h3, h4⟩ := ia_sep_not_digit
  rcases h with ⟨_, hsp⟩ | ⟨a, b, c, sa, sb, sc, _, _, _, _, rfl, spa, spb, spc⟩
  · exact sep_not_in_numSp (by omega) hsp _ h1 h2 h3
  · simp only [List.mem_append, List.mem_cons, not_or]
    exact ⟨sep_not_in_numSp (by omega) spa _ h1 h2 h3, h4, sep_not_in_numSp (by omega) spb _ h1 h2 h3, h4,
      sep_not_in_numSp (by omega) spc _ h1 h2 h3⟩

/-- `IsdAsn::from_str` accepts exactly the spellings `IsdAsnSp` -/
theorem isdAsn_accepts_iff (s : Str) (v : Nat) : parseIsdAsn s = .ok v ↔ IsdAsnSp v s ∧ v < 2 ^ IA_BITS := by
  refine ⟨isdAsn_accept_only_spellings s v, ?_⟩
  rintro ⟨⟨i, a, si, sa, hi, ha, rfl, rfl, spi, spa⟩, _⟩
  obtain ⟨h1, h2, h3, _⟩ := ia_sep_not_digit
  have hni : IA_SEP ∉ si := sep_not_in_numSp (by omega) spi _ h1 h2 h3
  have hna : IA_SEP ∉ sa := ia_sep_not_in_asnSp spa
  unfold parseIsdAsn
  have hcount : (((si ++ IA_SEP :: sa).filter (· == IA_SEP)).take 2).length = 1 := by
    simp [List.filter_append, filter_sep_of_not_mem hni, filter_sep_of_not_mem hna]
  rw [if_neg (by rw [hcount]; simp), splitOnce_append hni]
  simp only [(isd_accepts_iff si i).mpr ⟨spi, hi⟩, (asn_accepts_iff sa a).mpr ⟨spa, ha⟩]

theorem svc_parse_table_ok :
    (∀ p ∈ SVC_PARSE_NAMES, lookupName SVC_PARSE_NAMES p.1 = some p.2 ∧ SVC_SUFFIX_SEP ∉ p.1) ∧
    SVC_SUFFIX_SEP ≠ '+' ∧ SVC_SUFFIX_SEP ∉ lowerDigits ∧ SVC_SUFFIX_SEP ∉ upperDigits ∧
    SVC_SUFFIX_SEP ∉ SVC_PARSE_HEX_OPEN ∧ SVC_SUFFIX_SEP ∉ SVC_PARSE_HEX_CLOSE ∧ SVC_PARSE_HEX_OPEN ≠ [] ∧
    (∀ p ∈ SVC_PARSE_NAMES, p.1.head? ≠ SVC_PARSE_HEX_OPEN.head?) := by decide

theorem svcBaseSp_accepted {a : Nat} {base : Str} (ha : a < SVC_MULTICAST_FLAG) (h : SvcBaseSp a base) :
    SVC_SUFFIX_SEP ∉ base ∧ parseSvcBase base = some a := by
  obtain ⟨htab, hp, hl, hu, ho, hc, hne, hhead⟩ := svc_parse_table_ok
  obtain ⟨_, _, _, _, _, _, _, _, _, hrad, hbits, _, hflag, _⟩ := svc_tables_ok
  rcases h with h | ⟨hex, rfl, hsp⟩
  · obtain ⟨h1, h2⟩ := htab _ h
    exact ⟨h2, by simp [parseSvcBase, h1]⟩
  · refine ⟨?_, ?_⟩
    · simp only [List.mem_append, not_or]
      exact ⟨⟨ho, sep_not_in_numSp (by omega) hsp _ hp hl hu⟩, hc⟩
    · have hnone : lookupName SVC_PARSE_NAMES (SVC_PARSE_HEX_OPEN ++ hex ++ SVC_PARSE_HEX_CLOSE) = none := by
        apply lookupName_none
        intro p hp' heq
        have := hhead p hp'
        rw [heq] at this
        apply this
        cases hO : SVC_PARSE_HEX_OPEN with
        | nil => exact absurd hO hne
        | cons x xs => simp
      unfold parseSvcBase
      rw [hnone]
      simp only
      have h1 : stripPrefix SVC_PARSE_HEX_OPEN (SVC_PARSE_HEX_OPEN ++ hex ++ SVC_PARSE_HEX_CLOSE) = some (hex ++ SVC_PARSE_HEX_CLOSE) := by
        rw [stripPrefix_some]; simp
      have h2 : stripSuffix SVC_PARSE_HEX_CLOSE (hex ++ SVC_PARSE_HEX_CLOSE) = some hex := by rw [stripSuffix_some]
      rw [h1]; simp only; rw [h2]; simp only
      rw [hrad, hbits, numSp_accepted (Or.inr rfl) hsp (by rw [hflag] at ha; omega)]
      have hanyM : isMulticast a = false := by
        simp only [isMulticast]; rw [hflag] at ha ⊢
        have : a / 2 ^ 15 = 0 := Nat.div_eq_of_lt ha
        simp [this]
      simp [hanyM]

/-- `ServiceAddr::from_str` accepts exactly the spellings `SvcSp` -/
theorem svc_accepts_iff (s : Str) (v : Nat) : parseSvc s = some v ↔ SvcSp v s ∧ v < 2 ^ SVC_BITS := by
  refine ⟨svc_accept_only_spellings s v, ?_⟩
  rintro ⟨⟨a, base, ha, hb, hs⟩, _⟩
  obtain ⟨_, _, _, _, _, _, _, hAM, _, _, _, _, hflag, _⟩ := svc_tables_ok
  obtain ⟨hsep, hpb⟩ := svcBaseSp_accepted ha hb
  have hanyM : isMulticast a = false := by
    simp only [isMulticast]; rw [hflag] at ha ⊢
    have : a / 2 ^ 15 = 0 := Nat.div_eq_of_lt ha
    simp [this]
  unfold parseSvc
  rcases hs with ⟨hv, hs | hs⟩ | ⟨hv, hs⟩ <;> subst hv <;> subst hs
  · have : splitSvcSuffix s = (s, SVC_SUFFIX_ANYCAST) := by
      unfold splitSvcSuffix; rw [splitOnce_of_not_mem hsep]
    rw [this]; simp [hpb]
  · have : splitSvcSuffix (base ++ SVC_SUFFIX_SEP :: SVC_SUFFIX_ANYCAST) = (base, SVC_SUFFIX_ANYCAST) := by
      unfold splitSvcSuffix; rw [splitOnce_append hsep]
    rw [this]; simp [hpb]
  · have : splitSvcSuffix (base ++ SVC_SUFFIX_SEP :: SVC_SUFFIX_MULTICAST) = (base, SVC_SUFFIX_MULTICAST) := by
      unfold splitSvcSuffix; rw [splitOnce_append hsep]
    rw [this]
    simp only [hpb]
    rw [if_neg (Ne.symm hAM)]
    simp [toMulticast, hanyM]

/-- a spelling determines the value (corollary of exactness) -/
theorem isdAsnSp_unique {v w : Nat} {s : Str} (h1 : IsdAsnSp v s) (h1' : v < 2 ^ IA_BITS) (h2 : IsdAsnSp w s) (h2' : w < 2 ^ IA_BITS) :
    v = w := by
  have a := (isdAsn_accepts_iff s v).mpr ⟨h1, h1'⟩
  have b := (isdAsn_accepts_iff s w).mpr ⟨h2, h2'⟩
  rw [a] at b; cases b; rfl

theorem hostSp_accepted {C : HostCodec} (hC : C.Lawful) {h : Host} {s : Str} (hs : HostSp C h s) (hv : h.Valid) :
    parseHost C s = some h := by
  cases h with
  | v4 a => simp [parseHost, show C.parse4 s = some a from hs]
  | v6 a =>
    have h6 : C.parse6 s = some a := hs
    have h4 : C.parse4 s = none := by
      cases hp : C.parse4 s with
      | none => rfl
      | some b => rw [hC.disjoint s b hp] at h6; cases h6
    simp [parseHost, h4, h6]
  | svc v =>
    have hp : parseSvc s = some v := (svc_accepts_iff s v).mpr ⟨hs, hv⟩
    obtain ⟨c, hc, hn⟩ := parseSvc_nonip hp
    have h4 : C.parse4 s = none := by
      cases hp4 : C.parse4 s with
      | none => rfl
      | some b => exact absurd (alpha4_sub c (hC.alpha4 _ _ hp4 c hc)) hn
    have h6 : C.parse6 s = none := by
      cases hp6 : C.parse6 s with
      | none => rfl
      | some b => exact absurd (hC.alpha6 _ _ hp6 c hc) hn
    simp [parseHost, h4, h6, hp]

/-- `ScionHostAddr::from_str` accepts exactly the spellings `HostSp` -/
theorem host_accepts_iff (C : HostCodec) (hC : C.Lawful) (s : Str) (h : Host) :
    parseHost C s = some h ↔ HostSp C h s ∧ h.Valid :=
  ⟨host_accept_only_spellings C hC s h, fun ⟨hs, hv⟩ => hostSp_accepted hC hs hv⟩

theorem addr_sep_facts : ADDR_SEP ≠ '+' ∧ ADDR_SEP ∉ lowerDigits ∧ ADDR_SEP ∉ upperDigits ∧ ADDR_SEP ≠ ASN_SEP ∧ ADDR_SEP ≠ IA_SEP := by
  decide

theorem addr_sep_not_in_iaSp {v : Nat} {s : Str} (h : IsdAsnSp v s) : ADDR_SEP ∉ s := by
  obtain ⟨h1, h2, h3, h4, h5⟩ := addr_sep_facts
  obtain ⟨i, a, si, sa, _, _, _, rfl, spi, spa⟩ := h
  simp only [List.mem_append, List.mem_cons, not_or]
  refine ⟨sep_not_in_numSp (by omega) spi _ h1 h2 h3, h5, ?_⟩
  rcases spa with ⟨_, hsp⟩ | ⟨a, b, c, sa, sb, sc, _, _, _, _, rfl, spa, spb, spc⟩
  · exact sep_not_in_numSp (by omega) hsp _ h1 h2 h3
  · simp only [List.mem_append, List.mem_cons, not_or]
    exact ⟨sep_not_in_numSp (by omega) spa _ h1 h2 h3, h4, sep_not_in_numSp (by omega) spb _ h1 h2 h3, h4,
      sep_not_in_numSp (by omega) spc _ h1 h2 h3⟩

theorem parseScionAddrT_spelled {α : Type} (ph : Str → Option α) {ia : Nat} {sia sh : Str}
    (hsp : IsdAsnSp ia sia) (hia : ia < 2 ^ IA_BITS) :
    parseScionAddrT ph (sia ++ ADDR_SEP :: sh) = match ph sh with | some h => .ok (ia, h) | none => .err := by
  unfold parseScionAddrT
  rw [splitN_two, splitOnce_append (addr_sep_not_in_iaSp hsp)]
  simp only [(isdAsn_accepts_iff sia ia).mpr ⟨hsp, hia⟩]
  cases ph sh <;> rfl

/-- the three attempts of `ScionAddr::from_str` / `ScionSocketAddr::from_str` on a host spelling -/
theorem host_attempts {C : HostCodec} (hC : C.Lawful) {h : Host} {sh : Str} (hs : HostSp C h sh) (hv : h.Valid) :
    (∀ v, h = .svc v → parseSvc sh = some v) ∧
    (∀ a, h = .v4 a → parseSvc sh = none ∧ C.parse4 sh = some a) ∧
    (∀ a, h = .v6 a → parseSvc sh = none ∧ C.parse4 sh = none ∧ C.parse6 sh = some a) := by
  refine ⟨?_, ?_, ?_⟩
  · rintro v rfl; exact (svc_accepts_iff sh v).mpr ⟨hs, hv⟩
  · rintro a rfl
    have h4 : C.parse4 sh = some a := hs
    exact ⟨parseSvc_none_of_ip (fun c hc => alpha4_sub c (hC.alpha4 _ _ h4 c hc)), h4⟩
  · rintro a rfl
    have h6 : C.parse6 sh = some a := hs
    refine ⟨parseSvc_none_of_ip (hC.alpha6 _ _ h6), ?_, h6⟩
    cases hp : C.parse4 sh with
    | none => rfl
    | some b => rw [hC.disjoint sh b hp] at h6; cases h6

/-- `ScionAddr::from_str` accepts exactly the spellings `AddrSp` -/
theorem scionAddr_accepts_iff (C : HostCodec) (hC : C.Lawful) (s : Str) (a : ScionAddr) :
    parseScionAddr C s = .ok a ↔ AddrSp C a s ∧ a.Valid := by
  refine ⟨scionAddr_accept_only_spellings C hC s a, ?_⟩
  rintro ⟨⟨sia, sh, rfl, spia, sph⟩, hia, hv⟩
  obtain ⟨ia, h⟩ := a
  simp only at spia sph hia hv
  obtain ⟨hsvc, h4, h6⟩ := host_attempts hC sph hv
  unfold parseScionAddr
  simp only [parseScionAddrT_spelled _ spia hia]
  cases h with
  | svc v => simp [hsvc v rfl]
  | v4 a => obtain ⟨x, y⟩ := h4 a rfl; simp [x, y]
  | v6 a => obtain ⟨x, y, z⟩ := h6 a rfl; simp [x, y, z]

theorem port_sep_facts : PORT_SEP ≠ '+' ∧ PORT_SEP ∉ lowerDigits ∧ PORT_SEP ∉ upperDigits := by decide

theorem parseSocketT_spelled {α : Type} (pa : Str → Res (Nat × α)) {inner sp : Str} {p : Nat}
    (hsp : NumSp 10 p sp) (hp : p < 2 ^ PORT_BITS) :
    parseSocketT pa (SOCK_OPEN :: (inner ++ SOCK_CLOSE :: PORT_SEP :: sp)) =
      match pa inner with | .ok a => .ok (a, p) | .err => .err | .panic => .panic := by
  obtain ⟨h1, h2, h3⟩ := port_sep_facts
  unfold parseSocketT
  have : SOCK_OPEN :: (inner ++ SOCK_CLOSE :: PORT_SEP :: sp) = ([SOCK_OPEN] ++ inner ++ [SOCK_CLOSE]) ++ PORT_SEP :: sp := by simp
  rw [this, rsplitOnce_append (sep_not_in_numSp (by omega) hsp _ h1 h2 h3)]
  simp only
  have e1 : stripPrefix [SOCK_OPEN] ([SOCK_OPEN] ++ inner ++ [SOCK_CLOSE]) = some (inner ++ [SOCK_CLOSE]) := by
    rw [stripPrefix_some]; simp
  have e2 : stripSuffix [SOCK_CLOSE] (inner ++ [SOCK_CLOSE]) = some inner := by rw [stripSuffix_some]
  rw [e1]; simp only; rw [e2]; simp only
  rw [numSp_accepted (Or.inl rfl) hsp hp]
  cases pa inner <;> rfl

/-- `ScionSocketAddr::from_str` accepts exactly the spellings `SockSp` -/
theorem socketAddr_accepts_iff (C : HostCodec) (hC : C.Lawful) (s : Str) (a : SocketAddr) :
    parseSocketAddr C s = .ok a ↔ SockSp C a s ∧ a.Valid := by
  refine ⟨socketAddr_accept_only_spellings C hC s a, ?_⟩
  rintro ⟨⟨sa, sp, rfl, ⟨sia, sh, rfl, spia, sph⟩, spp⟩, hia, hv, hp⟩
  obtain ⟨ia, h, p⟩ := a
  simp only at spia sph spp hia hv hp
  obtain ⟨hsvc, h4, h6⟩ := host_attempts hC sph hv
  unfold parseSocketAddr
  simp only [parseSocketT_spelled _ spp hp, parseScionAddrT_spelled _ spia hia]
  cases h with
  | svc v => simp [hsvc v rfl]
  | v4 a => obtain ⟨x, y⟩ := h4 a rfl; simp [x, y]
  | v6 a => obtain ⟨x, y, z⟩ := h6 a rfl; simp [x, y, z]

/-! ### every spelling of a TXT payload is accepted -/

theorem trimStart_ws {w : Str} (hw : Ws w) (s : Str) : trimStart (w ++ s) = trimStart s := by
  induction w with
  | nil => rfl
  | cons c cs ih =>
    unfold trimStart at ih ⊢
    rw [List.cons_append, List.dropWhile_cons_of_pos (hw c (by simp))]
    exact ih (fun x hx => hw x (by simp [hx]))

theorem trimEnd_ws {w : Str} (hw : Ws w) (s : Str) : trimEnd (s ++ w) = trimEnd s := by
  unfold trimEnd
  rw [List.reverse_append, trimStart_ws (fun c hc => hw c (by simpa using hc))]

/-- first and last character are not white space -/
def Tight (m : Str) : Prop :=
  (∃ c t, m = c :: t ∧ isWhitespace c = false) ∧ (∃ t d, m = t ++ [d] ∧ isWhitespace d = false)

theorem trimStart_head {c : Char} {t : Str} (h : isWhitespace c = false) : trimStart (c :: t) = c :: t := by
  unfold trimStart; rw [List.dropWhile_cons_of_neg (by simp [h])]

theorem trimEnd_last {t : Str} {d : Char} (h : isWhitespace d = false) : trimEnd (t ++ [d]) = t ++ [d] := by
  unfold trimEnd
  rw [List.reverse_append]
  simp only [List.reverse_cons, List.reverse_nil, List.nil_append, List.cons_append]
  rw [trimStart_head h]
  simp

theorem trim_tight {w1 w2 m : Str} (h1 : Ws w1) (h2 : Ws w2) (hm : Tight m) : trim (w1 ++ m ++ w2) = m := by
  obtain ⟨⟨c, t, e1, hc⟩, ⟨t', d, e2, hd⟩⟩ := hm
  unfold trim
  rw [List.append_assoc, trimStart_ws h1]
  have : trimStart (m ++ w2) = m ++ w2 := by rw [e1, List.cons_append]; exact trimStart_head hc
  rw [this, trimEnd_ws h2, e2, trimEnd_last hd]

theorem trim_ws_only {w : Str} (h : Ws w) : trim w = [] := by
  have : trimStart w = [] := by
    have := trimStart_ws h []
    simpa [trimStart] using this
  unfold trim; rw [this]; rfl

theorem tight_of_noWs {m : Str} (h : NoWs m) (hne : m ≠ []) : Tight m := by
  constructor
  · cases m with
    | nil => exact absurd rfl hne
    | cons c t => exact ⟨c, t, rfl, h c (by simp)⟩
  · rcases List.eq_nil_or_concat m with rfl | ⟨t, d, rfl⟩
    · exact absurd rfl hne
    · exact ⟨t, d, by simp, h d (by simp)⟩

theorem tight_sandwich {a b : Str} (x : Str) (ha : Tight a) (hb : Tight b) : Tight (a ++ x ++ b) := by
  obtain ⟨⟨c, t, e1, hc⟩, _⟩ := ha
  obtain ⟨_, ⟨t', d, e2, hd⟩⟩ := hb
  exact ⟨⟨c, t ++ x ++ b, by rw [e1]; simp, hc⟩, ⟨a ++ x ++ t', d, by rw [e2]; simp, hd⟩⟩

theorem digits_noWs : (∀ c ∈ lowerDigits, isWhitespace c = false) ∧ (∀ c ∈ upperDigits, isWhitespace c = false) := by decide

theorem numSp_noWs {r n : Nat} {s : Str} (hr : 2 ≤ r) (h : NumSp r n s) : NoWs s ∧ s ≠ [] := by
  constructor
  · intro c hc
    rcases numSp_chars hr h c hc with rfl | h | h
    · decide
    · exact digits_noWs.1 c h
    · exact digits_noWs.2 c h
  · obtain ⟨plus, k, body, rfl, hb⟩ := h
    intro h0
    have : body = [] := by simp at h0; exact h0.2.2
    subst this
    simp at hb
    exact showNat_ne_nil hr n (by simpa using hb.symm)

theorem isdAsnSp_noWs {v : Nat} {s : Str} (h : IsdAsnSp v s) : NoWs s ∧ s ≠ [] := by
  obtain ⟨i, a, si, sa, _, _, _, rfl, spi, spa⟩ := h
  refine ⟨?_, by simp⟩
  intro c hc
  simp only [List.mem_append, List.mem_cons] at hc
  rcases hc with hc | rfl | hc
  · exact (numSp_noWs (by omega) spi).1 c hc
  · decide
  · rcases spa with ⟨_, hsp⟩ | ⟨a, b, c', sa, sb, sc, _, _, _, _, rfl, spa, spb, spc⟩
    · exact (numSp_noWs (by omega) hsp).1 c hc
    · simp only [List.mem_append, List.mem_cons] at hc
      rcases hc with hc | rfl | hc | rfl | hc
      · exact (numSp_noWs (by omega) spa).1 c hc
      · decide
      · exact (numSp_noWs (by omega) spb).1 c hc
      · decide
      · exact (numSp_noWs (by omega) spc).1 c hc

theorem ipv6Alphabet_noWs : ∀ c ∈ ipv6Alphabet, isWhitespace c = false := by decide

theorem ipHostSp_noWs {C : HostCodec} (hC : C.Lawful) {h : Host} {s : Str} (hs : HostSp C h s) (hip : ∀ v, h ≠ .svc v) :
    NoWs s ∧ s ≠ [] ∧ parseIp C s = some h ∧ (∀ c ∈ s, c ∈ ipv6Alphabet) := by
  cases h with
  | svc v => exact absurd rfl (hip v)
  | v4 a =>
    have h4 : C.parse4 s = some a := hs
    have hal : ∀ c ∈ s, c ∈ ipv6Alphabet := fun c hc => alpha4_sub c (hC.alpha4 _ _ h4 c hc)
    refine ⟨fun c hc => ipv6Alphabet_noWs c (hal c hc), ?_, by simp [parseIp, h4], hal⟩
    intro h0; subst h0; rw [hC.nonempty.1] at h4; cases h4
  | v6 a =>
    have h6 : C.parse6 s = some a := hs
    have hal : ∀ c ∈ s, c ∈ ipv6Alphabet := hC.alpha6 _ _ h6
    have h4 : C.parse4 s = none := by
      cases hp : C.parse4 s with
      | none => rfl
      | some b => rw [hC.disjoint s b hp] at h6; cases h6
    refine ⟨fun c hc => ipv6Alphabet_noWs c (hal c hc), ?_, by simp [parseIp, h4, h6], hal⟩
    intro h0; subst h0; rw [hC.nonempty.2] at h6; cases h6

theorem ws_not_mem {w : Str} (hw : Ws w) (c : Char) (hc : isWhitespace c = false) : c ∉ w := by
  intro hm; rw [hw c hm] at hc; cases hc

theorem txt_sep_facts : isWhitespace TXT_ENTRY_SEP = false ∧ isWhitespace TXT_CLOSE = false ∧ isWhitespace TXT_OPEN = false ∧
    isWhitespace TXT_LIST_SEP = false ∧ TXT_CLOSE ∉ ipv6Alphabet ∧ TXT_CLOSE ≠ TXT_ENTRY_SEP ∧ TXT_ENTRY_SEP = ADDR_SEP ∧
    TXT_CLOSE ≠ '+' ∧ TXT_CLOSE ∉ lowerDigits ∧ TXT_CLOSE ∉ upperDigits ∧ TXT_CLOSE ≠ IA_SEP ∧ TXT_CLOSE ≠ ASN_SEP := by decide

theorem close_not_in_iaSp {v : Nat} {s : Str} (h : IsdAsnSp v s) : TXT_CLOSE ∉ s := by
  obtain ⟨_, _, _, _, _, _, _, h1, h2, h3, h4, h5⟩ := txt_sep_facts
  obtain ⟨i, a, si, sa, _, _, _, rfl, spi, spa⟩ := h
  simp only [List.mem_append, List.mem_cons, not_or]
  refine ⟨sep_not_in_numSp (by omega) spi _ h1 h2 h3, h4, ?_⟩
  rcases spa with ⟨_, hsp⟩ | ⟨a, b, c, sa, sb, sc, _, _, _, _, rfl, spa, spb, spc⟩
  · exact sep_not_in_numSp (by omega) hsp _ h1 h2 h3
  · simp only [List.mem_append, List.mem_cons, not_or]
    exact ⟨sep_not_in_numSp (by omega) spa _ h1 h2 h3, h5, sep_not_in_numSp (by omega) spb _ h1 h2 h3, h5,
      sep_not_in_numSp (by omega) spc _ h1 h2 h3⟩

/-- one iteration of the loop on a spelled entry followed by `tail` -/
theorem parseTxtLoop_entry {C : HostCodec} (hC : C.Lawful) {a : ScionAddr} {e : Str} (he : TxtEntrySp C a e)
    (ha : a.Valid) (hip : a.IsIp) (tail : Str) (fuel : Nat) :
    parseTxtLoop C (fuel + 1) (e ++ tail) =
      if (trim tail).isEmpty then .ok [a]
      else if !startsWith TXT_LIST_SEP (trim tail) then .err
      else if (trim ((trim tail).drop 1)).isEmpty then .err
      else match parseTxtLoop C fuel (trim ((trim tail).drop 1)) with
        | .ok more => .ok (a :: more)
        | .err => .err
        | .panic => .panic := by
  obtain ⟨ia, h⟩ := a
  obtain ⟨w1, sia, w2, w3, sh, w4, hw1, hw2, hw3, hw4, rfl, spia, sph⟩ := he
  simp only at spia sph
  obtain ⟨wsE, wsC, wsO, _, cAlpha, cNe, eSep, _⟩ := txt_sep_facts
  obtain ⟨nwia, neia⟩ := isdAsnSp_noWs spia
  obtain ⟨nwh, neh, hpip, halh⟩ := ipHostSp_noWs hC sph hip
  -- the text between the brackets
  let inner := w1 ++ sia ++ w2 ++ TXT_ENTRY_SEP :: (w3 ++ sh ++ w4)
  have hclose : TXT_CLOSE ∉ TXT_OPEN :: inner := by
    simp only [inner, List.mem_cons, List.mem_append, not_or]
    exact ⟨txt_consts.1.symm, ⟨⟨ws_not_mem hw1 _ wsC, close_not_in_iaSp spia⟩, ws_not_mem hw2 _ wsC⟩, cNe,
      ⟨ws_not_mem hw3 _ wsC, fun hm => cAlpha (halh _ hm)⟩, ws_not_mem hw4 _ wsC⟩
  have hshape : TXT_OPEN :: (w1 ++ sia ++ w2 ++ TXT_ENTRY_SEP :: (w3 ++ sh ++ w4 ++ [TXT_CLOSE])) ++ tail =
      (TXT_OPEN :: inner) ++ TXT_CLOSE :: tail := by simp [inner]
  rw [hshape]
  conv => lhs; unfold parseTxtLoop
  have hsw : startsWith TXT_OPEN ((TXT_OPEN :: inner) ++ TXT_CLOSE :: tail) = true := by simp [startsWith]
  rw [hsw]
  simp only [Bool.not_true, Bool.false_eq_true, if_false]
  rw [find_append hclose]
  simp only
  rw [if_neg (by simp)]
  have htake : (((TXT_OPEN :: inner) ++ TXT_CLOSE :: tail).take (TXT_OPEN :: inner).length).drop 1 = inner := by
    rw [List.take_left']
    · rfl
    · rfl
  have hdrop : ((TXT_OPEN :: inner) ++ TXT_CLOSE :: tail).drop ((TXT_OPEN :: inner).length + 1) = tail := by
    have : (TXT_OPEN :: inner) ++ TXT_CLOSE :: tail = ((TXT_OPEN :: inner) ++ [TXT_CLOSE]) ++ tail := by simp
    rw [this]
    exact List.drop_left' (by simp)
  rw [htake, hdrop]
  -- trimming the entry
  have tia : Tight sia := tight_of_noWs nwia neia
  have th : Tight sh := tight_of_noWs nwh neh
  have hinner : inner = w1 ++ (sia ++ (w2 ++ TXT_ENTRY_SEP :: w3) ++ sh) ++ w4 := by simp [inner]
  have htrim : trim inner = sia ++ (w2 ++ TXT_ENTRY_SEP :: w3) ++ sh := by
    rw [hinner]; exact trim_tight hw1 hw4 (tight_sandwich _ tia th)
  have hsepia : TXT_ENTRY_SEP ∉ sia ++ w2 := by
    simp only [List.mem_append, not_or]
    exact ⟨by rw [eSep]; exact addr_sep_not_in_iaSp spia, ws_not_mem hw2 _ wsE⟩
  have hsplit : splitOnce TXT_ENTRY_SEP (sia ++ (w2 ++ TXT_ENTRY_SEP :: w3) ++ sh) = some (sia ++ w2, w3 ++ sh) := by
    have : sia ++ (w2 ++ TXT_ENTRY_SEP :: w3) ++ sh = (sia ++ w2) ++ TXT_ENTRY_SEP :: (w3 ++ sh) := by simp
    rw [this, splitOnce_append hsepia]
  rw [htrim, hsplit]
  simp only
  have t1 : trim (sia ++ w2) = sia := by
    have := trim_tight (w1 := []) Ws.nil hw2 tia; simpa using this
  have t2 : trim (w3 ++ sh) = sh := by
    have := trim_tight (w2 := []) hw3 Ws.nil th; simpa using this
  rw [t1, t2, (isdAsn_accepts_iff sia ia).mpr ⟨spia, ha.1⟩, hpip]
  simp only
  split
  · rfl
  · split
    · rfl
    · split
      · rfl
      · cases parseTxtLoop C fuel (trim (List.drop 1 (trim tail))) <;> rfl

theorem txtEntrySp_tight {C : HostCodec} {a : ScionAddr} {e : Str} (he : TxtEntrySp C a e) : Tight e := by
  obtain ⟨w1, sia, w2, w3, sh, w4, _, _, _, _, rfl, _, _⟩ := he
  obtain ⟨_, wsC, wsO, _⟩ := txt_sep_facts
  refine ⟨⟨TXT_OPEN, _, rfl, wsO⟩, ⟨TXT_OPEN :: (w1 ++ sia ++ w2 ++ TXT_ENTRY_SEP :: (w3 ++ sh ++ w4)), TXT_CLOSE, by simp, wsC⟩⟩

theorem txtListSp_tight {C : HostCodec} {l : List ScionAddr} {body : Str} (h : TxtListSp C l body) : Tight body := by
  induction h with
  | one he => exact txtEntrySp_tight he
  | @cons a e l rest w1 w2 he _ _ _ ih =>
    have := tight_sandwich (w1 ++ TXT_LIST_SEP :: w2) (txtEntrySp_tight he) ih
    simpa using this

theorem parseTxtLoop_spelled {C : HostCodec} (hC : C.Lawful) {l : List ScionAddr} {body : Str} (h : TxtListSp C l body) :
    (∀ a ∈ l, a.Valid ∧ a.IsIp) → ∀ (w : Str), Ws w → ∀ fuel, l.length ≤ fuel → parseTxtLoop C fuel (body ++ w) = .ok l := by
  induction h with
  | @one a e he =>
    intro hv w hw fuel hf
    cases fuel with
    | zero => simp at hf
    | succ fuel =>
      rw [parseTxtLoop_entry hC he (hv a (by simp)).1 (hv a (by simp)).2, trim_ws_only hw]
      simp
  | @cons a e l rest w1 w2 he hw1 hw2 hrest ih =>
    intro hv w hw fuel hf
    cases fuel with
    | zero => simp at hf
    | succ fuel =>
      obtain ⟨_, _, _, wsL, _⟩ := txt_sep_facts
      have hv' : ∀ x ∈ l, x.Valid ∧ x.IsIp := fun x hx => hv x (List.mem_cons_of_mem _ hx)
      have trest := txtListSp_tight hrest
      have e1 : e ++ w1 ++ TXT_LIST_SEP :: (w2 ++ rest) ++ w = e ++ (w1 ++ (TXT_LIST_SEP :: (w2 ++ rest)) ++ w) := by simp
      rw [e1, parseTxtLoop_entry hC he (hv a (by simp)).1 (hv a (by simp)).2]
      have tt : Tight (TXT_LIST_SEP :: (w2 ++ rest)) := by
        obtain ⟨_, ⟨t', d, e2, hd⟩⟩ := trest
        exact ⟨⟨TXT_LIST_SEP, _, rfl, wsL⟩, ⟨TXT_LIST_SEP :: (w2 ++ t'), d, by rw [e2]; simp, hd⟩⟩
      rw [trim_tight hw1 hw tt]
      simp only [List.isEmpty_cons, Bool.false_eq_true, if_false, startsWith, beq_self_eq_true, Bool.not_true,
        List.drop_succ_cons, List.drop_zero]
      have t3 : trim (w2 ++ rest) = rest := by
        have := trim_tight (w2 := []) hw2 Ws.nil trest; simpa using this
      rw [t3]
      have hne : rest ≠ [] := by
        obtain ⟨⟨c, t, e, _⟩, _⟩ := trest; rw [e]; simp
      have := ih hv' [] Ws.nil fuel (by simp at hf; omega)
      simp only [List.append_nil] at this
      rw [this]
      cases hr : rest with
      | nil => exact absurd hr hne
      | cons x xs => simp

/-- **accepted TXT payloads are exactly the record grammar** (`txt_grammar` of DESIGN §5 C15) -/
theorem txt_accepts_iff (C : HostCodec) (hC : C.Lawful) (s : Str) (l : List ScionAddr) :
    parseTxt C s = .ok l ↔ TxtSp C l s ∧ l ≠ [] ∧ ∀ a ∈ l, a.Valid ∧ a.IsIp := by
  refine ⟨txt_accept_only_spellings C hC s l, ?_⟩
  rintro ⟨⟨w1, body, w2, hw1, hw2, rfl, hsp⟩, _, hv⟩
  have tb := txtListSp_tight hsp
  unfold parseTxt
  simp only [trim_tight hw1 hw2 tb]
  have hne : body ≠ [] := by obtain ⟨⟨c, t, e, _⟩, _⟩ := tb; rw [e]; simp
  cases hb : body with
  | nil => exact absurd hb hne
  | cons x xs =>
    simp only [List.isEmpty_cons, Bool.false_eq_true, if_false]
    rw [← hb]
    have := parseTxtLoop_spelled hC hsp hv [] Ws.nil (body.length + 1) ?_
    · simpa using this
    · -- at least one character per entry
      have : ∀ {l : List ScionAddr} {b : Str}, TxtListSp C l b → l.length ≤ b.length := by
        intro l b h
        induction h with
        | one he => obtain ⟨_, _, _, _, _, _, _, _, _, _, rfl, _, _⟩ := he; simp
        | cons he _ _ _ ih => obtain ⟨_, _, _, _, _, _, _, _, _, _, rfl, _, _⟩ := he; simp at ih ⊢; omega
      have := this hsp
      omega

/-! ## the hypotheses on the IP codec are satisfiable (non-vacuity of every theorem that takes `C.Lawful`)

A deliberately simple codec – `"." decimal` for IPv4 values, `":" hex` for IPv6 values – is lawful.  (That *std's*
codec satisfies the same hypotheses is checked by the harness on every run, on std itself.) -/

def toyCodec : HostCodec where
  show4 a := '.' :: showNat 10 a
  parse4 s := match s with
    | c :: r => if c = '.' ∧ r.all (fun x => x ∈ ipv4Alphabet) then parseUInt 10 32 r else none
    | [] => none
  show6 a := ':' :: showNat 16 a
  parse6 s := match s with
    | c :: r => if c = ':' ∧ r.all (fun x => x ∈ ipv6Alphabet) then parseUInt 16 128 r else none
    | [] => none

theorem showNat10_chars : ∀ (n : Nat), ∀ c ∈ showNat 10 n, c ∈ ipv4Alphabet := by
  have hd : ∀ d, d < 10 → digitChar d ∈ ipv4Alphabet := by decide
  intro n
  induction n using Nat.strongRecOn with
  | _ n ih =>
    by_cases h : n < 10
    · rw [showNat_small (by omega) h]; intro c hc; simp at hc; subst hc; exact hd _ h
    · rw [showNat_step (by omega) (by omega)]
      intro c hc
      rcases List.mem_append.mp hc with hc | hc
      · exact ih _ (Nat.div_lt_self (by omega) (by omega)) c hc
      · simp at hc; subst hc; exact hd _ (Nat.mod_lt _ (by omega))

theorem lower_sub_ipv6 : ∀ c ∈ lowerDigits, c ∈ ipv6Alphabet := by decide

theorem toyCodec_lawful : toyCodec.Lawful where
  rt4 a ha := by
    simp [toyCodec, parseUInt_showNat (Or.inl rfl) ha]
    exact showNat10_chars a
  rt6 a ha := by
    simp [toyCodec, parseUInt_showNat (Or.inr rfl) ha]
    exact fun c hc => lower_sub_ipv6 c (showNat_chars (by omega) a c hc)
  range4 s a h := by
    simp only [toyCodec] at h
    split at h
    · split at h
      · exact (parseUInt_spelling (Or.inl rfl) h).2
      · cases h
    · cases h
  range6 s a h := by
    simp only [toyCodec] at h
    split at h
    · split at h
      · exact (parseUInt_spelling (Or.inr rfl) h).2
      · cases h
    · cases h
  alpha4 s a h := by
    simp only [toyCodec] at h
    split at h
    · next c r =>
      split at h
      · next hc =>
        intro x hx
        rcases List.mem_cons.mp hx with rfl | hx
        · rw [hc.1]; decide
        · have := List.all_eq_true.mp hc.2 x hx; simpa using this
      · cases h
    · cases h
  alpha6 s a h := by
    simp only [toyCodec] at h
    split at h
    · next c r =>
      split at h
      · next hc =>
        intro x hx
        rcases List.mem_cons.mp hx with rfl | hx
        · rw [hc.1]; decide
        · have := List.all_eq_true.mp hc.2 x hx; simpa using this
      · cases h
    · cases h
  colon6 a _ := by simp [toyCodec]
  nonempty := by simp [toyCodec]
  disjoint s a h := by
    simp only [toyCodec] at h ⊢
    split at h
    · next c r =>
      split at h
      · next hc => rw [if_neg]; intro hc'; rw [hc.1] at hc'; exact absurd hc'.1 (by decide)
      · cases h
    · cases h

example : ∃ C : HostCodec, C.Lawful := ⟨toyCodec, toyCodec_lawful⟩
example : parseSocketAddr toyCodec (showSocketAddr toyCodec ⟨0x1ff0000000110, .v4 0x0a000001, 1000⟩) =
    .ok ⟨0x1ff0000000110, .v4 0x0a000001, 1000⟩ :=
  socketAddr_parse_show toyCodec toyCodec_lawful _ ⟨by decide, by show 0x0a000001 < 2 ^ 32; decide, by decide⟩

/-! ## concrete instances with std's codec (non-vacuity of the statements; replayed on the real code by the harness corpus) -/

example : parseSocketAddr stdCodec "[1-ff00:0:110,10.0.0.1]:1000".toList = .ok ⟨0x1ff0000000110, .v4 0x0a000001, 1000⟩ := by decide
example : parseSocketAddr stdCodec "[1-ff00:0:110,::1]:80".toList = .ok ⟨0x1ff0000000110, .v6 1, 80⟩ := by decide
example : parseScionAddr stdCodec "1-ff00:0:110,CS_M".toList = .ok ⟨0x1ff0000000110, .svc 0x8002⟩ := by decide
example : parseTxt stdCodec "[19-ff00:0:110,192.0.2.1] , [19-ff00:0:111,2001:db8::1]".toList =
    .ok [⟨0x13ff0000000110, .v4 0xc0000201⟩, ⟨0x13ff0000000111, .v6 0x20010db8000000000000000000000001⟩] := by decide

/-! ## the defects that were repaired (DESIGN §9 rows 1, 2, 17) -/

/-- the splitter as it was panicked on `":80"` (slice `[1..len-1]` of the empty prefix) … -/
theorem legacy_socket_panic_witness :
    parseSocketLegacyT (parseScionAddrT parseSvc) ":80".toList = .panic := by decide

/-- … and accepted a string whose first and last character before the port are not brackets, dropping them -/
theorem legacy_socket_garbage_witness :
    parseSocketLegacyT (parseScionAddrT stdCodec.parse4) "x1-ff00:0:110,10.0.0.1y:1000".toList =
      .ok ((0x1ff0000000110, 0x0a000001), 1000) := by decide

/-- the repaired code rejects both, and the dangling TXT separator -/
theorem repaired_witnesses :
    parseSocketAddr stdCodec ":80".toList = .err ∧
    parseSocketAddr stdCodec "x1-ff00:0:110,10.0.0.1y:1000".toList = .err ∧
    parseSvc (showSvc 3) = some 3 ∧ showSvc 3 = "<SVC:0x0003>".toList ∧
    parseTxt stdCodec "[19-ff00:0:110,192.0.2.1],".toList = .err := by decide

/-! ## DNS TXT record level (`txt_record_to_string`, the record loop of `resolve`,
`resolve_txt_records_with_invalid`) -/

/-- the texts the record loop of `resolve` hands on: the records whose concatenated character-strings
    decode, in order -/
def decodedRecords (U : Utf8Codec) (rrs : List TxtRR) : List Str :=
  rrs.filterMap (fun rr => U.decode rr.flatten)

theorem collectTxtRecords_fst (U : Utf8Codec) : ∀ rrs, (collectTxtRecords U rrs).1 = decodedRecords U rrs
  | [] => rfl
  | rr :: rest => by
    unfold collectTxtRecords decodedRecords txtRecordToString
    have ih := collectTxtRecords_fst U rest
    unfold decodedRecords at ih
    cases h : U.decode rr.flatten with
    | none => simp [h, ih]
    | some s => simp [h, ih]

/-- a record text that contributes the addresses `l`: exactly the version prefix followed by a spelling of
    the non-empty list `l` of SCION IP addresses – every character of the record is accounted for -/
def TxtRecordSp (C : HostCodec) (l : List ScionAddr) (r : Str) : Prop :=
  ∃ p, r = TXT_PREFIX ++ p ∧ TxtSp C l p ∧ l ≠ [] ∧ ∀ a ∈ l, a.Valid ∧ a.IsIp

/-- declarative reading of a list of record texts: a record that is prefix + payload spelling contributes
    its addresses, every other record contributes nothing; order is kept -/
inductive TxtRecordsSp (C : HostCodec) : List Str → List ScionAddr → Prop
  | nil : TxtRecordsSp C [] []
  | skip {r : Str} {rs : List Str} {out : List ScionAddr} :
      (∀ l, ¬ TxtRecordSp C l r) → TxtRecordsSp C rs out → TxtRecordsSp C (r :: rs) out
  | take {r : Str} {rs : List Str} {l out : List ScionAddr} :
      TxtRecordSp C l r → TxtRecordsSp C rs out → TxtRecordsSp C (r :: rs) (l ++ out)

theorem txtRecordSp_iff {C : HostCodec} (hC : C.Lawful) (l : List ScionAddr) (r : Str) :
    TxtRecordSp C l r ↔ ∃ p, stripPrefix TXT_PREFIX r = some p ∧ parseTxt C p = .ok l := by
  constructor
  · rintro ⟨p, rfl, h⟩
    exact ⟨p, stripPrefix_some.2 rfl, (txt_accepts_iff C hC p l).2 h⟩
  · rintro ⟨p, hp, h⟩
    exact ⟨p, stripPrefix_some.1 hp, (txt_accepts_iff C hC p l).1 h⟩

/-- the loop of `resolve_txt_records_with_invalid` never panics and appends, to its two accumulators, the
    addresses the declarative reading gives and the texts of the prefixed records that are not spellings -/
theorem resolveTxtLoop_spec {C : HostCodec} (hC : C.Lawful) : ∀ (rs : List Str) (valid : List ScionAddr) (invalid : List Str),
    ∃ out inv, resolveTxtLoop C rs valid invalid = some (valid ++ out, invalid ++ inv) ∧ TxtRecordsSp C rs out ∧
      inv = rs.filter (fun r => match stripPrefix TXT_PREFIX r with
        | none => false
        | some p => match parseTxt C p with | .ok _ => false | _ => true)
  | [], valid, invalid => ⟨[], [], by simp [resolveTxtLoop], .nil, rfl⟩
  | r :: rs, valid, invalid => by
    unfold resolveTxtLoop
    cases hp : stripPrefix TXT_PREFIX r with
    | none =>
      obtain ⟨out, inv, h1, h2, h3⟩ := resolveTxtLoop_spec hC rs valid invalid
      refine ⟨out, inv, h1, .skip ?_ h2, ?_⟩
      · intro l hl
        obtain ⟨p, hp', _⟩ := (txtRecordSp_iff hC l r).1 hl
        rw [hp] at hp'; cases hp'
      · simp [hp, h3]
    | some p =>
      cases ht : parseTxt C p with
      | panic => exact absurd ht (txt_total C p)
      | ok l =>
        obtain ⟨out, inv, h1, h2, h3⟩ := resolveTxtLoop_spec hC rs (valid ++ l) invalid
        refine ⟨l ++ out, inv, by simpa [ht] using h1, .take ((txtRecordSp_iff hC l r).2 ⟨p, hp, ht⟩) h2, ?_⟩
        simp [hp, ht, h3]
      | err =>
        obtain ⟨out, inv, h1, h2, h3⟩ := resolveTxtLoop_spec hC rs valid (invalid ++ [r])
        refine ⟨out, r :: inv, by simpa [ht] using h1, .skip ?_ h2, ?_⟩
        · intro l hl
          obtain ⟨p', hp', ht'⟩ := (txtRecordSp_iff hC l r).1 hl
          rw [hp] at hp'; cases hp'; rw [ht] at ht'; cases ht'
        · simp [hp, ht, h3]

/-- the declarative reading is a function of the record texts -/
theorem txtRecordsSp_unique {C : HostCodec} (hC : C.Lawful) : ∀ {rs : List Str} {o1 o2 : List ScionAddr},
    TxtRecordsSp C rs o1 → TxtRecordsSp C rs o2 → o1 = o2 := by
  intro rs o1 o2 h1
  induction h1 generalizing o2 with
  | nil => intro h2; cases h2; rfl
  | skip hn _ ih =>
    intro h2
    cases h2 with
    | skip _ h2' => exact ih h2'
    | take hl _ => exact absurd hl (hn _)
  | take hl _ ih =>
    intro h2
    cases h2 with
    | skip hn _ => exact absurd hl (hn _)
    | take hl' h2' =>
      obtain ⟨p, hp, ht⟩ := (txtRecordSp_iff hC _ _).1 hl
      obtain ⟨p', hp', ht'⟩ := (txtRecordSp_iff hC _ _).1 hl'
      rw [hp] at hp'; cases hp'; rw [ht] at ht'; cases ht'
      rw [ih h2']

/-- **the TXT record level never panics**, whatever the records, their split into character-strings and the
    UTF-8 decoder are -/
theorem txtRecords_total (C : HostCodec) (U : Utf8Codec) (rrs : List TxtRR) :
    resolveTxtRRs C U rrs ≠ .panic := by
  have loop : ∀ (rs : List Str) (valid : List ScionAddr) (invalid : List Str), resolveTxtLoop C rs valid invalid ≠ none := by
    intro rs
    induction rs with
    | nil => intro valid invalid; simp [resolveTxtLoop]
    | cons r rs ih =>
      intro valid invalid
      unfold resolveTxtLoop
      split
      · exact ih _ _
      · next p _ =>
        split
        · exact ih _ _
        · exact ih _ _
        · next ht => exact absurd ht (txt_total C p)
  unfold resolveTxtRRs resolveTxtRecords
  split
  · next h => exact absurd h (loop _ _ _)
  · split <;> simp

/-- **the addresses a lookup returns are exactly those of the records that are the version prefix followed by
    a payload spelling, in record order** – no other record contributes an address, nothing inside an
    accepted record is dropped, no such record is lost; and the lookup succeeds iff there is such a record -/
theorem txtRecords_accepts_iff (C : HostCodec) (hC : C.Lawful) (U : Utf8Codec) (rrs : List TxtRR) (addrs : List ScionAddr) :
    resolveTxtRRs C U rrs = .ok addrs ↔ addrs ≠ [] ∧ TxtRecordsSp C (decodedRecords U rrs) addrs := by
  unfold resolveTxtRRs resolveTxtRecords
  obtain ⟨out, inv, h, hsp, _⟩ := resolveTxtLoop_spec hC (collectTxtRecords U rrs).1 [] (collectTxtRecords U rrs).2
  rw [h, collectTxtRecords_fst] at *
  simp only [List.nil_append]
  constructor
  · intro hr
    split at hr
    · cases hr
    · next hne => cases hr; exact ⟨by simpa using hne, hsp⟩
  · rintro ⟨hne, hsp'⟩
    have := txtRecordsSp_unique hC hsp hsp'
    subst this
    rw [if_neg (by simpa using hne)]

/-- the accept-only direction, as the property states it -/
theorem txtRecords_accept_only_spellings (C : HostCodec) (hC : C.Lawful) (U : Utf8Codec) (rrs : List TxtRR)
    (addrs : List ScionAddr) (h : resolveTxtRRs C U rrs = .ok addrs) :
    addrs ≠ [] ∧ TxtRecordsSp C (decodedRecords U rrs) addrs :=
  (txtRecords_accepts_iff C hC U rrs addrs).1 h

/-- a set of records none of which is a spelling contributes nothing … -/
theorem txtRecordsSp_nil_iff {C : HostCodec} : ∀ {rs : List Str},
    TxtRecordsSp C rs [] ↔ ∀ r ∈ rs, ∀ l, ¬ TxtRecordSp C l r := by
  intro rs
  induction rs with
  | nil => exact ⟨fun _ r hr => (by cases hr), fun _ => TxtRecordsSp.nil⟩
  | cons r rs ih =>
    constructor
    · intro h
      generalize ho : ([] : List ScionAddr) = o at h
      cases h with
      | skip hn h' =>
        subst ho
        intro x hx
        rcases List.mem_cons.1 hx with rfl | hx
        · exact hn
        · exact ih.1 h' x hx
      | take hl h' =>
        obtain ⟨_, _, _, hne, _⟩ := hl
        exact absurd (List.append_eq_nil_iff.1 ho.symm).1 hne
    · intro h
      exact .skip (h r (by simp)) (ih.2 (fun x hx => h x (by simp [hx])))

/-- **… and the lookup fails with `NoValidEntries` exactly then**: iff no record that decodes is the version
    prefix followed by a payload spelling (an invalid record next to a valid one is *skipped*, it does not make
    the lookup fail – `resolver.rs`: "Partial failures SHOULD return the valid addresses") -/
theorem txtRecords_noValid_iff (C : HostCodec) (hC : C.Lawful) (U : Utf8Codec) (rrs : List TxtRR) :
    (∃ inv, resolveTxtRRs C U rrs = .noValid inv) ↔ ∀ r ∈ decodedRecords U rrs, ∀ l, ¬ TxtRecordSp C l r := by
  rw [← txtRecordsSp_nil_iff]
  unfold resolveTxtRRs resolveTxtRecords
  obtain ⟨out, inv, h, hsp, _⟩ := resolveTxtLoop_spec hC (collectTxtRecords U rrs).1 [] (collectTxtRecords U rrs).2
  rw [h, collectTxtRecords_fst] at *
  simp only [List.nil_append]
  constructor
  · rintro ⟨i, hr⟩
    split at hr
    · next he => rw [List.isEmpty_iff.1 he] at hsp; exact hsp
    · cases hr
  · intro hsp'
    have := txtRecordsSp_unique hC hsp hsp'
    subst this
    exact ⟨(collectTxtRecords U rrs).2 ++ inv, by simp⟩

/-- the invalid entries reported with `NoValidEntries`: one `<invalid-utf8>` per record that does not decode,
    then the text of every record that carries the prefix -/
theorem txtRecords_noValid_entries (C : HostCodec) (hC : C.Lawful) (U : Utf8Codec) (rrs : List TxtRR) (inv : List Str)
    (h : resolveTxtRRs C U rrs = .noValid inv) :
    inv = (collectTxtRecords U rrs).2 ++ (decodedRecords U rrs).filter (fun r => (stripPrefix TXT_PREFIX r).isSome) := by
  have hno := (txtRecords_noValid_iff C hC U rrs).1 ⟨inv, h⟩
  unfold resolveTxtRRs resolveTxtRecords at h
  obtain ⟨out, inv', h', _, hinv⟩ := resolveTxtLoop_spec hC (collectTxtRecords U rrs).1 [] (collectTxtRecords U rrs).2
  rw [h'] at h
  rw [collectTxtRecords_fst] at hinv
  simp only [List.nil_append] at h
  by_cases he : out.isEmpty
  · rw [if_pos he] at h
    cases h
    rw [hinv]
    congr 1
    apply List.filter_congr
    intro r hr
    cases hp : stripPrefix TXT_PREFIX r with
    | none => simp
    | some p =>
      cases ht : parseTxt C p with
      | ok l => exact absurd ((txtRecordSp_iff hC l r).2 ⟨p, hp, ht⟩) (hno r hr l)
      | err => simp [ht]
      | panic => simp [ht]
  · rw [if_neg he] at h
    cases h

/-! ### a written record set resolves to its addresses, however the records are split -/

/-- hypothesis on std's UTF-8 codec: decoding the encoding of a text gives the text -/
structure Utf8Codec.Lawful (U : Utf8Codec) : Prop where
  decode_encode : ∀ s, U.decode (U.encode s) = some s

/-- the record text for a list of addresses: version prefix, then the documented address-list grammar -/
def showTxtRecord (C : HostCodec) (l : List ScionAddr) : Str := TXT_PREFIX ++ showTxt C l

theorem txtRecordsSp_shown {C : HostCodec} (hC : C.Lawful) : ∀ (ls : List (List ScionAddr)),
    (∀ l ∈ ls, l ≠ [] ∧ ∀ a ∈ l, a.Valid ∧ a.IsIp) → TxtRecordsSp C (ls.map (showTxtRecord C)) ls.flatten
  | [], _ => .nil
  | l :: ls, hv => by
    simp only [List.map_cons, List.flatten_cons]
    refine .take ((txtRecordSp_iff hC _ _).2 ⟨showTxt C l, stripPrefix_some.2 rfl, ?_⟩)
      (txtRecordsSp_shown hC ls (fun x hx => hv x (by simp [hx])))
    exact txt_parse_show C hC l (hv l (by simp)).1 (hv l (by simp)).2

/-- **round trip of the record level**: for every non-empty list of non-empty lists of valid SCION IP addresses,
    the records `scion=v1;[ia,host],…` – each one split into character-strings in *any* way – resolve to exactly
    those addresses, in order -/
theorem txtRecords_parse_show (C : HostCodec) (hC : C.Lawful) (U : Utf8Codec) (hU : U.Lawful)
    (ls : List (List ScionAddr)) (hne : ls ≠ []) (hv : ∀ l ∈ ls, l ≠ [] ∧ ∀ a ∈ l, a.Valid ∧ a.IsIp)
    (rrs : List TxtRR) (hsplit : rrs.map List.flatten = ls.map (fun l => U.encode (showTxtRecord C l))) :
    resolveTxtRRs C U rrs = .ok ls.flatten := by
  rw [txtRecords_accepts_iff C hC]
  have hdec : decodedRecords U rrs = ls.map (showTxtRecord C) := by
    have : decodedRecords U rrs = (rrs.map List.flatten).filterMap U.decode := by
      unfold decodedRecords; rw [List.filterMap_map]; rfl
    rw [this, hsplit, List.filterMap_map]
    clear hsplit this hv hne
    induction ls with
    | nil => rfl
    | cons l ls ih => simp [hU.decode_encode, ih]
  rw [hdec]
  refine ⟨?_, txtRecordsSp_shown hC ls hv⟩
  cases ls with
  | nil => exact absurd rfl hne
  | cons l ls =>
    have := (hv l (by simp)).1
    cases l with
    | nil => exact absurd rfl this
    | cons a l => simp

/-! ### non-vacuity: a lawful UTF-8 codec exists; concrete record sets with std's IP codec -/

/-- one "byte" per character (bytes are unbounded naturals in the model) – lawful; the driver uses Lean's real
    UTF-8 validator, which the harness compares with std's on every record -/
def asciiUtf8 : Utf8Codec where
  decode bs := some (bs.map Char.ofNat)
  encode s := s.map Char.toNat

theorem asciiUtf8_lawful : asciiUtf8.Lawful where
  decode_encode s := by
    show some ((s.map Char.toNat).map Char.ofNat) = some s
    rw [List.map_map]
    congr 1
    conv => rhs; rw [← List.map_id s]
    apply List.map_congr_left
    intro c _
    exact Char.ofNat_toNat c

example : ∃ U : Utf8Codec, U.Lawful := ⟨asciiUtf8, asciiUtf8_lawful⟩

def bytesOf (s : String) : List Nat := s.toList.map Char.toNat

/-- a record split into two character-strings inside the IP address is one text; a record with a bad ISD-AS
    next to it is skipped; a record of another application is ignored -/
theorem txtRecords_example :
    resolveTxtRRs stdCodec asciiUtf8
      [[bytesOf "v=spf1 ~all"], [bytesOf "scion=v1;[19-ff00:0:110,192.", bytesOf "0.2.1]"], [bytesOf "scion=v1;[bad,192.0.2.2]"]] =
      .ok [⟨0x13ff0000000110, .v4 0xc0000201⟩] ∧
    resolveTxtRRs stdCodec asciiUtf8 [[bytesOf "scion=v1;[bad,192.0.2.2]"], [bytesOf "scion=v2;[19-ff00:0:110,192.0.2.1]"]] =
      .noValid ["scion=v1;[bad,192.0.2.2]".toList] ∧
    resolveTxtRRs stdCodec asciiUtf8 [[bytesOf " scion=v1;[19-ff00:0:110,192.0.2.1]"], [bytesOf "scion=v1;[19-ff00:0:110,192.0.2.1]]"]] =
      .noValid ["scion=v1;[19-ff00:0:110,192.0.2.1]]".toList] := by decide

example : resolveTxtRRs toyCodec asciiUtf8 [[asciiUtf8.encode (showTxtRecord toyCodec [⟨0x13ff0000000110, .v4 0xc0000201⟩])]] =
    .ok [⟨0x13ff0000000110, .v4 0xc0000201⟩] := by
  have := txtRecords_parse_show toyCodec toyCodec_lawful asciiUtf8 asciiUtf8_lawful [[⟨0x13ff0000000110, .v4 0xc0000201⟩]]
    (by simp) (by
      intro l hl
      simp only [List.mem_singleton] at hl
      subst hl
      refine ⟨by simp, ?_⟩
      intro a ha
      simp only [List.mem_singleton] at ha
      subst ha
      exact ⟨⟨by decide, by show 0xc0000201 < 2 ^ 32; decide⟩, fun v h => by cases h⟩)
    [[asciiUtf8.encode (showTxtRecord toyCodec [⟨0x13ff0000000110, .v4 0xc0000201⟩])]] (by simp)
  simpa using this

end ScionVerif.AddrText
