import ScionVerif.Lemmas.Frag
import ScionVerif.Lemmas.FragLive
import ScionVerif.Lemmas.FragSlot
/-!
# C17 — tunnel reassembly emits only intact packets, at most once, in any frame order

Property theorems over the model `Model/Frag.lean` (constants from `Generated/Frag.lean`, i.e. from the
Rust source as it is now).  Helper lemmas and the queue invariant are in `Lemmas/Frag.lean`.
Everything is stated for an arbitrary byte type `α`, arbitrary queue count and arbitrary – also hostile –
frame sequences of any length.

Liveness ("emitted whenever all its frames arrive before its slot is reclaimed, regardless of reordering and
duplication") is proved at the level of one reassembly slot: `emitted_when_complete` (section 5).  That the
slot survives until then (`select_queue` does not evict it) is the property's own premise; the interplay of
several slots under eviction is exercised by the correspondence harness `hx_frag`.
-/
namespace ScionVerif.Frag
open ScionVerif.Generated.Frag
variable {α : Type}

/-! ## 1. Integrity: an emitted packet consists entirely of bytes received in frames of that packet -/

/-- **Integrity, all inputs.**  For every queue count `n`, every initial buffer content `z`, every frame
sequence `frames` (honest or hostile, any order, any length): if the `i`-th `recv` call emits a packet
with stream offset `s` and payload `p`, then every byte `p[pos]` was carried, at packet position `pos`,
by one of the frames `0..i` whose header names the same stream offset `s`.  In particular bytes of an
earlier packet (or of the zero-initialised buffer) never appear in a later one. -/
theorem emit_integrity (z : α) (n : Nat) (frames : List (Frame α)) (d : Defrag α) (outs : List (Out α))
    (hrun : (Defrag.new z n).run frames = some (d, outs))
    (i s : Nat) (p : List α) (hout : outs[i]? = some (.packet s p))
    (pos : Nat) (a : α) (ha : p[pos]? = some a) :
    ∃ f ∈ frames.take (i + 1), f.carries s pos a := by
  obtain ⟨_, h⟩ := run_inv (DInv.new z n) hrun
  obtain ⟨f, hf, hc⟩ := (h i s p hout).1 pos a ha
  rcases hf with hf | hf
  · exact ⟨f, hf, hc⟩
  · simp at hf

/-- **Length is announced by a LAST frame of the same packet.** -/
theorem emit_length (z : α) (n : Nat) (frames : List (Frame α)) (d : Defrag α) (outs : List (Out α))
    (hrun : (Defrag.new z n).run frames = some (d, outs))
    (i s : Nat) (p : List α) (hout : outs[i]? = some (.packet s p)) :
    ∃ g ∈ frames.take (i + 1), g.hdr.streamOff = s ∧ g.hdr.isLast = true ∧
      g.hdr.frameOff + g.payload.length = p.length := by
  obtain ⟨_, h⟩ := run_inv (DInv.new z n) hrun
  obtain ⟨g, hg, rest⟩ := (h i s p hout).2
  rcases hg with hg | hg
  · exact ⟨g, hg, rest⟩
  · simp at hg

/-- a frame is an honest fragment of the packet `data` -/
def IsFragmentOf (data : List α) (f : Frame α) : Prop :=
  (∀ pos a, f.payload[pos]? = some a → data[f.hdr.frameOff + pos]? = some a) ∧
  (f.hdr.isLast = true → f.hdr.frameOff + f.payload.length = data.length)

/-- **Honest sender ⇒ byte-identical.**  If every frame that names stream offset `s` is an honest fragment
of `data` (whatever else – hostile frames of other streams, duplicates, any order – is interleaved), then
any packet emitted for `s` equals `data`. -/
theorem honest_identical (z : α) (n : Nat) (frames : List (Frame α)) (d : Defrag α) (outs : List (Out α))
    (hrun : (Defrag.new z n).run frames = some (d, outs))
    (s : Nat) (data : List α)
    (honest : ∀ f ∈ frames, f.hdr.streamOff = s → IsFragmentOf data f)
    (i : Nat) (p : List α) (hout : outs[i]? = some (.packet s p)) : p = data := by
  obtain ⟨g, hg, hgs, hgl, hglen⟩ := emit_length z n frames d outs hrun i s p hout
  have hlen : p.length = data.length := by
    rw [← hglen]; exact (honest g (List.mem_of_mem_take hg) hgs).2 hgl
  apply List.ext_getElem? ; intro pos
  by_cases hp : pos < p.length
  · have hp' : p[pos]? = some p[pos] := List.getElem?_eq_getElem hp
    obtain ⟨f, hf, hfs, hle, hc⟩ := emit_integrity z n frames d outs hrun i s p hout pos _ hp'
    have := (honest f (List.mem_of_mem_take hf) hfs).1 _ _ hc
    rw [hp', ← this]; congr 1; omega
  · rw [List.getElem?_eq_none (by omega), List.getElem?_eq_none (by omega)]

/-! ## 2. Totality and constant memory -/

/-- feeding any frame sequence to a state that satisfies the invariant never panics -/
theorem run_isSome {hist : List (Frame α)} {d : Defrag α} (hinv : DInv hist d) (frames : List (Frame α)) :
    (d.run frames).isSome = true := by
  induction frames generalizing hist d with
  | nil => rfl
  | cons f fs ih =>
    unfold Defrag.run
    have h := recvFrame_isSome hinv f
    split
    · rename_i hn; simp [hn] at h
    · rename_i d' o h1
      have := ih (recvFrame_inv hinv h1).1
      split
      · rename_i hn; simp [hn] at this
      · rfl

/-- **No panic**, for any queue count (0 included) and any frame sequence.  `Defrag.run` is `none` as soon as
one `recv` call reaches a Rust panic site: an out-of-range queue index computed by `select_queue`, or – inside
`ingest_frame` (`Queue.ingestP`/`Queue.ingestSafe`) – the `usize` subtractions `final_packet_size -
last_frame_offset` and `expected_frames - 1`, a division by zero (`frame_offset / len`, `div_ceil`), a
`recv_mask` index `≥ BITMASK_ENTRY_COUNT`, a slice of the assembly buffer out of range, or an overflowing
`u16` addition. -/
theorem no_panic (z : α) (n : Nat) (frames : List (Frame α)) :
    ((Defrag.new z n).run frames).isSome = true := run_isSome (DInv.new z n) frames

/-- **No panic site of `ingest_frame` fires** on any queue state reachable from `Defragmenter::new`, whatever
frame is ingested (`ingestP = none` is the model of a Rust panic).  Reachable: the queue is a member of the state
after an arbitrary frame sequence; the frame carries the queue's stream offset, as `select_queue` guarantees. -/
theorem ingest_no_panic (z : α) (n : Nat) (frames : List (Frame α)) (d : Defrag α) (outs : List (Out α))
    (hrun : (Defrag.new z n).run frames = some (d, outs)) (q : Queue α) (hq : q ∈ d.queues) (f : Frame α)
    (hs : f.hdr.streamOff = q.streamOff) : q.ingestP f = some (q.ingest f) := by
  have key : ∀ (fs : List (Frame α)) (hist : List (Frame α)) (d0 d1 : Defrag α) (os : List (Out α)),
      DInv hist d0 → d0.run fs = some (d1, os) → ∃ hist', DInv hist' d1 := by
    intro fs
    induction fs with
    | nil =>
      intro hist d0 d1 os hinv h
      simp only [Defrag.run, Option.some.injEq, Prod.mk.injEq] at h
      exact ⟨hist, h.1 ▸ hinv⟩
    | cons f fs ih =>
      intro hist d0 d1 os hinv h
      unfold Defrag.run at h
      split at h
      · simp at h
      · rename_i d' o h1
        split at h
        · simp at h
        · rename_i d'' os' h2
          simp only [Option.some.injEq, Prod.mk.injEq] at h
          obtain ⟨rfl, _⟩ := h
          exact ih (f :: hist) d' d'' os' (recvFrame_inv hinv h1).1 h2
  obtain ⟨hist', hi⟩ := key frames [] _ d outs (DInv.new z n) hrun
  exact ingestP_of_inv f (hi q hq) hs

/-- the panic guards are not vacuous: on a queue state that violates the invariant (a stale
    `last_frame_offset` above `final_packet_size`) the subtraction site fires -/
example : oneTimeSafe ({
      streamOff := 0, nextFrameOff := 0, buf := [], recv := [], window := some 256,
      finalSize := some 300, expected := none, lastOff := some 512, idle := false, used := true } : Queue Nat) = false := by
  decide

/-- **Memory does not grow**: after any frame sequence there are still `n` queues and every reassembly
buffer still has exactly `MAX_PACKET_SIZE` bytes. -/
theorem memory_constant (z : α) (n : Nat) (frames : List (Frame α)) (d : Defrag α) (outs : List (Out α))
    (hrun : (Defrag.new z n).run frames = some (d, outs)) :
    d.queues.length = n ∧ ∀ q ∈ d.queues, q.buf.length = MAX_PACKET_SIZE := by
  have key : ∀ (hist : List (Frame α)) (d0 : Defrag α) (fs : List (Frame α)) (d1 : Defrag α) (os : List (Out α)),
      DInv hist d0 → d0.run fs = some (d1, os) →
      d1.queues.length = d0.queues.length ∧ ∃ hist', DInv hist' d1 := by
    intro hist d0 fs
    induction fs generalizing hist d0 with
    | nil =>
      intro d1 os hinv h
      simp only [Defrag.run, Option.some.injEq, Prod.mk.injEq] at h
      obtain ⟨rfl, _⟩ := h
      exact ⟨rfl, hist, hinv⟩
    | cons f fs ih =>
      intro d1 os hinv h
      unfold Defrag.run at h
      split at h
      · simp at h
      · rename_i d' o h1
        split at h
        · simp at h
        · rename_i d'' os' h2
          simp only [Option.some.injEq, Prod.mk.injEq] at h
          obtain ⟨rfl, _⟩ := h
          obtain ⟨hl, hist', hi⟩ := ih (f :: hist) d' d'' os' (recvFrame_inv hinv h1).1 h2
          exact ⟨by rw [hl, recvFrame_queues_length h1], hist', hi⟩
  obtain ⟨hl, hist', hi⟩ := key [] _ frames d outs (DInv.new z n) hrun
  exact ⟨by simpa [Defrag.new] using hl, fun q hq => (hi q hq).len⟩

/-- **At most once per slot lifetime**: a queue that has emitted is idle, and an idle queue rejects every
further frame (until `select_queue` re-initialises it for another packet). -/
theorem emitted_then_idle (q : Queue α) (f : Frame α) (s : Nat) (p : List α)
    (h : (q.ingest f).2 = .packet s p) : (q.ingest f).1.idle = true := by
  have hfin : ∀ (q2 : Queue α) (idx : Nat), (q2.finish f idx).2 = .packet s p →
      (q2.finish f idx).1.idle = true := by
    intro q2 idx
    unfold Queue.finish
    simp only []
    repeat' split
    all_goals (intro h; simp at h ⊢)
  revert h
  unfold Queue.ingest
  repeat' split
  all_goals first
    | exact hfin _ _
    | (intro h; simp at h)

theorem idle_rejects (q : Queue α) (f : Frame α) (h : q.idle = true) :
    q.ingest f = (q, .err .queueNotAccepting) := by
  simp [Queue.ingest, h]

/-! ## 3. The fragmenter: bounded frame count, exact offsets, payloads that are fragments -/

theorem isLast_flag (s o : Nat) : Header.isLast ⟨s, o, FLAG_LAST⟩ = true := by
  simp [Header.isLast]; decide
theorem isLast_zero (s o : Nat) : Header.isLast ⟨s, o, 0⟩ = false := by
  simp [Header.isLast]

theorem fragLoop_length (s p : Nat) (n i : Nat) (rest : List α) : (fragLoop s p n i rest).length = n := by
  induction n generalizing i rest with
  | zero => rfl
  | succ n ih => simp [fragLoop, ih]

/-- every frame produced by the loop is an honest fragment carrying stream offset `s`
    (`n` frames remain, `rest = data[i*p..]`, and `n = ⌈rest.length / p⌉`) -/
theorem fragLoop_fragments (s p : Nat) (data : List α) (hd : data.length ≤ MAX_PACKET_SIZE)
    (n i : Nat) (rest : List α) (hrest : rest = data.drop (i * p)) (hip : i * p ≤ data.length)
    (hle : rest.length ≤ n * p) (hlo : n * p < rest.length + p) :
    ∀ g ∈ fragLoop s p n i rest, g.hdr.streamOff = s ∧ IsFragmentOf data g := by
  induction n generalizing i rest with
  | zero => intro g hg; simp [fragLoop] at hg
  | succ n ih =>
    intro g hg
    simp only [fragLoop, List.mem_cons] at hg
    have hmax : MAX_PACKET_SIZE < 65536 := by decide
    have hrl : rest.length = data.length - i * p := by rw [hrest]; simp
    rw [Nat.add_mul, Nat.one_mul] at hle hlo
    rcases hg with rfl | hg
    · refine ⟨rfl, ?_, ?_⟩
      · intro pos a ha
        simp only [List.getElem?_take] at ha
        split at ha
        · rw [hrest, List.getElem?_drop] at ha
          rw [Nat.mod_eq_of_lt (by omega)]; exact ha
        · simp at ha
      · intro hl
        simp only [Nat.mod_eq_of_lt (show i * p < 65536 by omega), List.length_take]
        by_cases hn : n = 0
        · subst hn
          simp at hle; omega
        · have : (n == 0) = false := by simpa using hn
          simp only [this, Bool.false_eq_true, ↓reduceIte] at hl
          rw [isLast_zero] at hl; cases hl
    · cases n with
      | zero => simp [fragLoop] at hg
      | succ m =>
        rw [Nat.add_mul, Nat.one_mul] at hle hlo
        have hdl : (rest.drop p).length = rest.length - p := by simp
        refine ih (i + 1) (rest.drop p) ?_ ?_ ?_ ?_ g hg
        · rw [hrest, List.drop_drop]; congr 1; rw [Nat.add_mul]; omega
        · rw [Nat.add_mul]; omega
        · rw [hdl, Nat.add_mul, Nat.one_mul]; omega
        · rw [hdl, Nat.add_mul, Nat.one_mul]; omega

/-- **`Fragmenter::send` produces honest fragments, at most `MAX_FRAMES` of them**, for every packet size
`1..=MAX_PACKET_SIZE` and every MTU in `[MIN_MTU, MAX_MTU]` (the range `set_mtu` clamps to): the frame
offsets are exact (no 16-bit truncation), the LAST flag sits on the frame that ends the packet. -/
theorem send_fragments (mtu s : Nat) (data : List α) (hmtu : MIN_MTU ≤ mtu)
    (frames : List (Frame α)) (s' : Nat) (h : send mtu s data = .ok (frames, s')) :
    frames.length ≤ MAX_FRAMES ∧ 0 < frames.length ∧
    (∀ g ∈ frames, g.hdr.streamOff = s ∧ IsFragmentOf data g) ∧ s' = (s + data.length) % 2 ^ 64 := by
  unfold send at h
  split at h
  · simp at h
  · split at h
    · simp at h
    · rename_i h1 h2
      simp only [Except.ok.injEq, Prod.mk.injEq] at h
      obtain ⟨rfl, rfl⟩ := h
      have hmin : MIN_MTU - HEADER_SIZE = MIN_PAYLOAD_SIZE := by decide
      have hps : MIN_PAYLOAD_SIZE = 256 := by decide
      have hmp : MAX_PACKET_SIZE = 65535 := by decide
      have hmf : MAX_FRAMES = 256 := by decide
      have hmm : HEADER_SIZE ≤ MIN_MTU := by decide
      have hp : MIN_PAYLOAD_SIZE ≤ mtu - HEADER_SIZE := by omega
      generalize mtu - HEADER_SIZE = p at *
      have hlen : 0 < data.length := by
        cases data with
        | nil => simp at h2
        | cons => simp
      have hpp : 0 < p := by omega
      rw [fragLoop_length]
      have hdm := Nat.div_add_mod (data.length + p - 1) p
      have hml := Nat.mod_lt (data.length + p - 1) hpp
      refine ⟨?_, ?_, ?_, rfl⟩
      · rw [hmf]; apply Nat.le_of_lt_succ; apply Nat.div_lt_of_lt_mul; omega
      · apply Nat.div_pos <;> omega
      · apply fragLoop_fragments s p data (by omega) _ 0 data (by simp) (by simp)
        · rw [Nat.mul_comm]; omega
        · rw [Nat.mul_comm]; omega

/-- **`Fragmenter::send` does not panic** for any data and any MTU `set_mtu` can leave behind: `mtu - SIZE`
and `data.len() - offset` do not underflow, `div_ceil` does not divide by zero, every slice of `data` is in
range (`sendP = none` is the model of a Rust panic). -/
theorem send_no_panic (mtu s : Nat) (data : List α) (hmtu : MIN_MTU ≤ mtu) :
    sendP mtu s data = some (send mtu s data) := by
  have key : sendSafe mtu data = true := by
    unfold sendSafe
    split
    · rfl
    · split
      · rfl
      · have hmm : HEADER_SIZE < MIN_MTU := by decide
        have h1 : HEADER_SIZE ≤ mtu := by omega
        have hp : 0 < mtu - HEADER_SIZE := by omega
        simp only [h1, hp, decide_true, Bool.true_and, List.all_eq_true, List.mem_range, decide_eq_true_eq]
        intro i hi
        generalize mtu - HEADER_SIZE = p at *
        have h2 : (i + 1) * p ≤ data.length + p - 1 := (Nat.le_div_iff_mul_le hp).mp hi
        rw [Nat.add_mul, Nat.one_mul] at h2
        omega
  simp [sendP, key]

/-- `set_mtu` clamps into the range for which `send_fragments` holds -/
theorem clampMtu_range (mtu : Nat) : MIN_MTU ≤ clampMtu mtu ∧ clampMtu mtu ≤ MAX_MTU := by
  have : MIN_MTU ≤ MAX_MTU := by decide
  unfold clampMtu; omega

/-- the bit reserved for the LAST frame and every regular frame index fit the receive bitmap -/
theorem bitmap_fits : MAX_FRAMES ≤ BITMASK_ENTRY_BITS * BITMASK_ENTRY_COUNT ∧
    MAX_PACKET_SIZE / MIN_PAYLOAD_SIZE ≤ MAX_FRAMES - 1 ∧ MIN_PAYLOAD_SIZE = MIN_MTU - HEADER_SIZE := by decide

/-! ## 5. Liveness of a slot: emitted exactly when the last missing frame arrives -/

theorem fragLoop_get (s p : Nat) : ∀ (n i : Nat) (rest : List α) (k : Nat), k < n →
    (fragLoop s p n i rest)[k]? =
      some ⟨⟨s, ((i + k) * p) % 65536, if k + 1 = n then FLAG_LAST else 0⟩, (rest.drop (k * p)).take p⟩ := by
  intro n
  induction n with
  | zero => intro i rest k hk; omega
  | succ n ih =>
    intro i rest k hk
    cases k with
    | zero =>
      simp only [fragLoop, List.getElem?_cons_zero, Nat.add_zero, Nat.zero_mul, List.drop_zero]
      congr 3
      by_cases h : n = 0 <;> simp [h]
    | succ k =>
      simp only [fragLoop, List.getElem?_cons_succ]
      rw [ih (i + 1) (rest.drop p) k (by omega)]
      congr 3
      · congr 2; omega
      · by_cases h : k + 1 = n <;> simp [h]
      · rw [List.drop_drop]; congr 2; rw [Nat.add_mul]; omega

/-- **the frames `Fragmenter::send` produces for a multi-frame packet are exactly the honest frames of a
    `Shape`** (so the liveness theorem applies to them) -/
theorem send_frames_shape (mtu s : Nat) (data : List α) (hmtu : MIN_MTU ≤ mtu)
    (frames : List (Frame α)) (s' : Nat) (h : send mtu s data = .ok (frames, s'))
    (hmulti : mtu - HEADER_SIZE < data.length) :
    ∃ sh : Shape, sh.S = s ∧ sh.n = frames.length ∧ sh.total = data.length ∧
      ∀ k, k < sh.n → ∃ f, frames[k]? = some f ∧ sh.IsFrame f k := by
  unfold send at h
  split at h
  · simp at h
  · split at h
    · simp at h
    · rename_i h1 h2
      simp only [Except.ok.injEq, Prod.mk.injEq] at h
      obtain ⟨hfr, _⟩ := h
      have hmin : MIN_MTU - HEADER_SIZE = MIN_PAYLOAD_SIZE := by decide
      have hps : MIN_PAYLOAD_SIZE = 256 := by decide
      have hmm : HEADER_SIZE ≤ MIN_MTU := by decide
      have hp : MIN_PAYLOAD_SIZE ≤ mtu - HEADER_SIZE := by omega
      generalize mtu - HEADER_SIZE = p at *
      have hpp : 0 < p := by omega
      -- number of frames and size of the last one
      have hdm := Nat.div_add_mod (data.length + p - 1) p
      have hml := Nat.mod_lt (data.length + p - 1) hpp
      generalize hn : (data.length + p - 1) / p = n at *
      have hn2 : 2 ≤ n := by
        apply Classical.byContradiction; intro hc
        have : n ≤ 1 := by omega
        have : p * n ≤ p * 1 := Nat.mul_le_mul_left _ this
        omega
      have hlo : (n - 1) * p < data.length := by
        have : p * n = p * (n - 1) + p := by
          have : n = (n - 1) + 1 := by omega
          rw [this, Nat.mul_add]; simp
        rw [Nat.mul_comm]; omega
      have hhi : data.length ≤ (n - 1) * p + p := by
        have : p * n = p * (n - 1) + p := by
          have : n = (n - 1) + 1 := by omega
          rw [this, Nat.mul_add]; simp
        rw [Nat.mul_comm]; omega
      let sh : Shape := ⟨s, p, n, data.length - (n - 1) * p, hn2, hp, by omega, by omega, by
        have : (n - 1) * p + (data.length - (n - 1) * p) = data.length := by omega
        rw [this]; omega⟩
      refine ⟨sh, rfl, ?_, ?_, ?_⟩
      · rw [← hfr, fragLoop_length]
      · show (n - 1) * p + (data.length - (n - 1) * p) = data.length; omega
      · intro k hk
        have hk' : k < n := hk
        refine ⟨_, by rw [← hfr]; exact fragLoop_get s p n 0 data k hk', ?_⟩
        have hkp : k * p ≤ (n - 1) * p := Nat.mul_le_mul_right _ (by omega)
        have hmaxp : MAX_PACKET_SIZE < 65536 := by decide
        refine ⟨rfl, hk', ?_, ?_⟩
        · show (0 + k) * p % 65536 = k * sh.p
          rw [Nat.zero_add, Nat.mod_eq_of_lt (by omega)]
        · show (if k = sh.n - 1 then _ else _)
          have hnn : sh.n = n := rfl
          by_cases hkl : k = n - 1
          · have h1' : k + 1 = n := by omega
            simp only [hnn, hkl, ↓reduceIte]
            refine ⟨?_, ?_⟩
            · have : n - 1 + 1 = n := by omega
              simp only [this, ↓reduceIte]; exact isLast_flag _ _
            · simp only [List.length_take, List.length_drop]
              show min p (data.length - (n - 1) * p) = data.length - (n - 1) * p
              omega
          · have h1' : ¬ k + 1 = n := by omega
            simp only [hnn, hkl, ↓reduceIte, h1']
            refine ⟨isLast_zero _ _, ?_⟩
            simp only [List.length_take, List.length_drop]
            show min p (data.length - k * p) = p
            have : (k + 1) * p ≤ (n - 1) * p := Nat.mul_le_mul_right _ (by omega)
            rw [Nat.add_mul, Nat.one_mul] at this
            omega


/-- **Emitted when complete.**  Take any queue (whatever it held before) that `select_queue` initialises for
the first frame of an honest multi-frame packet of shape `sh`.  Feed it any sequence of frames of that packet
– any order, any duplicates – that contains every frame at least once.  Then at some position the packet is
emitted with exactly `sh.total` bytes, and every earlier result is `Ok(None)` or `Duplicate`: no frame of the
packet is ever refused, and completion is not missed.  (Together with `honest_identical` the emitted bytes
are the packet that was sent; with `emitted_then_idle`/`idle_rejects` it is emitted once per slot lifetime.) -/
theorem emitted_when_complete (sh : Shape) (q : Queue α) (hb : q.buf.length = MAX_PACKET_SIZE)
    (fj : List (Frame α × Nat)) (f0 : Frame α) (hf0 : f0.hdr.streamOff = sh.S)
    (hfr : ∀ x ∈ fj, sh.IsFrame x.1 x.2) (hall : ∀ k, k < sh.n → k ∈ fj.map (·.2)) :
    ∃ (i : Nat) (buf : List α), buf.length = MAX_PACKET_SIZE ∧
      (qrun (q.init f0) (fj.map (·.1)))[i]? = some (.packet sh.S (buf.take sh.total)) ∧
      ∀ i', i' < i → (qrun (q.init f0) (fj.map (·.1)))[i']? = some .none ∨
                      (qrun (q.init f0) (fj.map (·.1)))[i']? = some (.err .duplicate) :=
  Live.run_emits fj (q.init f0) [] (Live.init sh q f0 hb hf0) (by have := sh.hn; simp; omega) hfr
    (fun k hk => Or.inr (hall k hk))

/-! ## 6. The whole defragmenter: interleaving with other packets, at most once, emitted when complete

`Owns d i S`: queue `i` is the one `select_queue` finds for stream offset `S`.  `NotReclaimed i d frames`: while
`frames` are fed to `d`, `select_queue` never re-initialises slot `i` for another packet – the property's premise
"before its slot is reclaimed" (a condition on the run; `notReclaimedB` is its executable form).  Proofs in
`Lemmas/FragSlot.lean`. -/

/-- **A frame of another packet – honest or hostile, accepted, refused, lost or duplicated – does not touch the
slot** of packet `S` unless `select_queue` re-initialises exactly that slot, and it cannot emit a packet
labelled `S`. -/
theorem other_packet_frame_leaves_slot {hist : List (Frame α)} {d d' : Defrag α} {i S : Nat} {q : Queue α}
    {f : Frame α} {o : Out α} (hinv : DInv hist d) (hown : Owns d i S) (hq : d.queues[i]? = some q)
    (hne : f.hdr.streamOff ≠ S) (hnr : fastPath f = false → selectQueue d f ≠ .fresh i)
    (hr : d.recvFrame f = some (d', o)) :
    d'.queues[i]? = some q ∧ Owns d' i S ∧ ∀ p, o ≠ .packet S p :=
  recv_other hinv hown hq hne hnr hr

/-- **The first frame of an honest multi-frame packet that is given a slot** (idle or evicted) is accepted
(`Ok(None)`), and from then on that slot is the one `select_queue` finds for the packet. -/
theorem first_frame_gets_slot {hist : List (Frame α)} {sh : Shape} {d d' : Defrag α} {i j : Nat} {f0 : Frame α}
    {o : Out α} (hinv : DInv hist d) (hsel : selectQueue d f0 = .fresh i) (hf0 : sh.IsFrame f0 j)
    (hr : d.recvFrame f0 = some (d', o)) :
    o = .none ∧ Owns d' i sh.S ∧ ∃ q', d'.queues[i]? = some q' ∧ Live sh q' [j] :=
  fresh_live hinv hsel hf0 hr

/-- **Emitted exactly once, exactly when complete, under any interleaving.**  Slot `i` is reassembling the
honest packet `sh` and has accepted the frames `seen`.  Feed *any* frame sequence in which every frame labelled
`sh.S` is a frame of the packet (any order, any duplicates) – frames of other stream offsets are arbitrary
(other honest packets complete or with lost frames, hostile frames) – such that the missing frames all occur and
slot `i` is not reclaimed.  Then the run does not panic, the packet is emitted with exactly `sh.total` bytes at
an index `t` that holds a frame of the packet, `t` is the first index by which every frame of the packet has
arrived, and no other result of the run is a packet labelled `sh.S`. -/
theorem emitted_exactly_once_when_complete {sh : Shape} {i : Nat} (frames : List (Frame α))
    {hist : List (Frame α)} (d : Defrag α) (q : Queue α) (seen : List Nat) (hinv : DInv hist d)
    (hown : Owns d i sh.S) (hq : d.queues[i]? = some q) (hlive : Live sh q seen) (hlen : seen.length < sh.n)
    (hfr : ∀ f ∈ frames, f.hdr.streamOff = sh.S → ∃ j, sh.IsFrame f j)
    (hnr : NotReclaimed i d frames)
    (hall : ∀ k, k < sh.n → k ∈ seen ∨ ∃ f ∈ frames, sh.IsFrame f k) :
    ∃ (d' : Defrag α) (outs : List (Out α)) (t : Nat) (buf : List α),
      d.run frames = some (d', outs) ∧ buf.length = MAX_PACKET_SIZE ∧
      outs[t]? = some (.packet sh.S (buf.take sh.total)) ∧
      (∃ f j, frames[t]? = some f ∧ sh.IsFrame f j) ∧
      (∀ t' p, t' ≠ t → outs[t']? ≠ some (.packet sh.S p)) ∧
      (∀ k, k < sh.n → k ∈ seen ∨ ∃ f ∈ frames.take (t + 1), sh.IsFrame f k) ∧
      (∀ t', t' < t → ∃ k, k < sh.n ∧ k ∉ seen ∧ ∀ f ∈ frames.take (t' + 1), ¬ sh.IsFrame f k) :=
  live_run_first frames d q seen hinv hown hq hlive hlen hfr hnr hall

/-- **At most once until the slot is reclaimed.**  Once the slot that holds stream offset `S` is idle (it has
emitted the packet, or gave it up after an inconsistent frame), no multi-frame frame labelled `S` – duplicates
of the packet's frames included – makes the defragmenter emit a packet labelled `S`, for as long as the slot is
not re-initialised for another packet. -/
theorem at_most_once_until_reclaimed {hist : List (Frame α)} {d : Defrag α} {i S : Nat} {q : Queue α}
    (frames : List (Frame α)) (hinv : DInv hist d) (hown : Owns d i S) (hq : d.queues[i]? = some q)
    (hidle : q.idle = true) (hnr : NotReclaimed i d frames)
    (hmulti : ∀ f ∈ frames, f.hdr.streamOff = S → fastPath f = false)
    (d' : Defrag α) (outs : List (Out α)) (hrun : d.run frames = some (d', outs)) :
    ∀ (t : Nat) (p : List α), outs[t]? ≠ some (Out.packet S p) :=
  once_after_idle frames hinv hown hq hidle hnr hmulti d' outs hrun

/-- the at-most-once clause of the property is **false** for single-frame packets (open finding
`C17:at-most-once:single-frame-duplicate`): the same frame fed twice is emitted twice (kernel-evaluated) -/
theorem single_frame_duplicate_witness :
    ((Defrag.new (0 : Nat) 2).run [⟨⟨5, 0, FLAG_LAST⟩, [1, 2, 3]⟩, ⟨⟨5, 0, FLAG_LAST⟩, [1, 2, 3]⟩]).map
        (fun r => r.2.map (fun o => match o with | .packet s p => some (s, p) | _ => none)) =
      some [some (5, [1, 2, 3]), some (5, [1, 2, 3])] := by
  decide +kernel

/-! ## 4. Non-vacuity: concrete runs that satisfy the hypotheses above -/

/-- a 2-frame honest packet delivered in reverse order is reassembled (hypotheses of the theorems are met
    by a real run; evaluated by the kernel) -/
example :
    let fs : List (Frame Nat) := [⟨⟨7, 256, FLAG_LAST⟩, [1, 2, 3]⟩, ⟨⟨7, 0, 0⟩, List.replicate 256 9⟩]
    (((Defrag.new 0 2).run fs).map (fun r => r.2.map (fun o => match o with
        | .packet s p => (s, p.length) | _ => (0, 0)))) = some [(0, 0), (7, 259)] := by
  decide +kernel

end ScionVerif.Frag
