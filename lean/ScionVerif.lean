-- Root of the library: models and theorems are built per target by bin/check
import ScionVerif.Model.Frag
